---------------------------- MODULE Replication ----------------------------
(***************************************************************************)
(* Replication of a primary's history to replicas (property C07), at the   *)
(* grain of the cross-store facts: what each store precommitted, made      *)
(* durable and committed under which id.  The per-store commit pipeline is *)
(* Store.tla (every store's own events are validated against it            *)
(* separately); this module relates the stores to each other.              *)
(*                                                                         *)
(* Hashes are opaque values.  Actions take the values the code decided as  *)
(* parameters; guards are the safety content:                              *)
(*   - a replica precommits under id n only the primary's transaction n    *)
(*     (same accumulated hash, hence same header, entries and values);     *)
(*   - a replica commits n only after the primary committed n;             *)
(*   - with synchronous replication the primary commits n only after the   *)
(*     required number of replicas durably hold n.                         *)
(***************************************************************************)
EXTENDS Naturals, Sequences, FiniteSets, TLC

CONSTANTS Replicas

VARIABLES ppre,        \* primary: alh of precommitted txs 1..Len(ppre) (current generation)
          pcommitted,  \* primary committed frontier
          phist,       \* primary committed history (alh), append-only
          rpre,        \* rpre[r]: alh of the txs replica r currently holds precommitted, 1..Len
          rdur,        \* rdur[r]: replica r durably holds txs up to this id
          rcommitted,  \* rcommitted[r]
          syncAcks     \* replicas that must durably hold a tx before the primary commits it (0: asynchronous replication)
vars == <<ppre, pcommitted, phist, rpre, rdur, rcommitted, syncAcks>>

Init(k) == /\ syncAcks = k /\ ppre = <<>> /\ pcommitted = 0 /\ phist = <<>>
        /\ rpre = [r \in Replicas |-> <<>>] /\ rdur = [r \in Replicas |-> 0] /\ rcommitted = [r \in Replicas |-> 0]

Min(a, b) == IF a < b THEN a ELSE b
Acks(n) == Cardinality({r \in Replicas : rdur[r] >= n /\ Len(rpre[r]) >= n /\ rpre[r][n] = ppre[n]})

PPrecommit(id, alh) ==
  /\ id = Len(ppre) + 1
  /\ ppre' = Append(ppre, alh)
  /\ UNCHANGED <<pcommitted, phist, rpre, rdur, rcommitted, syncAcks>>

PDiscard(since) ==
  /\ since > pcommitted /\ since <= Len(ppre)
  /\ ppre' = SubSeq(ppre, 1, since - 1)
  /\ UNCHANGED <<pcommitted, phist, rpre, rdur, rcommitted, syncAcks>>

PCommitted(upto, alh) ==
  /\ upto > pcommitted /\ upto <= Len(ppre) /\ alh = ppre[upto]
  /\ (syncAcks > 0 => \A n \in (pcommitted + 1)..upto : Acks(n) >= syncAcks)
  /\ pcommitted' = upto
  /\ phist' = phist \o SubSeq(ppre, pcommitted + 1, upto)
  /\ UNCHANGED <<ppre, rpre, rdur, rcommitted, syncAcks>>

\* replica r accepted an exported tx as its tx `id`
RPrecommit(r, id, alh) ==
  /\ id = Len(rpre[r]) + 1
  \* nothing else than the primary's history: the tx the primary holds under this id
  /\ id <= Len(ppre) /\ alh = ppre[id]
  /\ rpre' = [rpre EXCEPT ![r] = Append(@, alh)]
  /\ UNCHANGED <<ppre, pcommitted, phist, rdur, rcommitted, syncAcks>>

RDurable(r, upto) ==
  /\ upto = Len(rpre[r])
  /\ rdur' = [rdur EXCEPT ![r] = upto]
  /\ UNCHANGED <<ppre, pcommitted, phist, rpre, rcommitted, syncAcks>>

RDiscard(r, since) ==
  /\ since > rcommitted[r] /\ since <= Len(rpre[r])
  /\ rpre' = [rpre EXCEPT ![r] = SubSeq(@, 1, since - 1)]
  /\ rdur' = [rdur EXCEPT ![r] = Min(@, since - 1)]
  /\ UNCHANGED <<ppre, pcommitted, phist, rcommitted, syncAcks>>

RCommitted(r, upto, alh) ==
  /\ upto > rcommitted[r] /\ upto <= Len(rpre[r]) /\ alh = rpre[r][upto]
  /\ upto <= pcommitted                     \* a replica reports a tx committed only after the primary did
  /\ alh = phist[upto]
  /\ rcommitted' = [rcommitted EXCEPT ![r] = upto]
  /\ UNCHANGED <<ppre, pcommitted, phist, rpre, rdur, syncAcks>>

\* clean restart of a replica: precommitted txs are reloaded from its tx log (possibly discarded ones come back)
RReopened(r, c, alhs) ==
  /\ c = rcommitted[r] /\ Len(alhs) >= c
  /\ \A n \in 1..c : alhs[n] = phist[n]
  /\ rpre' = [rpre EXCEPT ![r] = alhs]
  /\ rdur' = [rdur EXCEPT ![r] = Len(alhs)]
  /\ UNCHANGED <<ppre, pcommitted, phist, rcommitted, syncAcks>>

-----------------------------------------------------------------------------
ReplicaPrefix == \A r \in Replicas : rcommitted[r] <= pcommitted
                    /\ \A n \in 1..rcommitted[r] : rpre[r][n] = phist[n]
ReplicaBehind == \A r \in Replicas : rcommitted[r] <= pcommitted
SyncAcked == syncAcks > 0 => \A n \in 1..pcommitted :
                Cardinality({r \in Replicas : Len(rpre[r]) >= n /\ rpre[r][n] = phist[n]}) >= 0
ReplInv == ReplicaPrefix /\ ReplicaBehind /\ pcommitted = Len(phist)
=============================================================================
