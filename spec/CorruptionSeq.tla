--------------------------- MODULE CorruptionSeq ---------------------------
(***************************************************************************)
(* Property C09, second part: state kept BETWEEN reads inside one process. *)
(*                                                                         *)
(* Corruption.tla judges one read after one alteration.  Here a process    *)
(* performs a SEQUENCE of reads of two values (A in tx tA, B in tx tB)     *)
(* while the bytes on disk are altered at some point of the sequence, and  *)
(* the store keeps a per-process value cache (immustore.go readValueAt,    *)
(* option VLogCacheSize): a miss reads the value log and puts the bytes    *)
(* into the cache BEFORE their digest is compared (PutBeforeVerify), a hit *)
(* answers from the cache; the digest is compared after either source      *)
(* (VerifyCacheHits) unless the caller passed skipIntegrityCheck.          *)
(*                                                                         *)
(* Reads (op, value):                                                      *)
(*   RV   ReadTx (checked, one tx holder shared by the whole sequence) +   *)
(*        ReadValue of the entry                                           *)
(*   RVE  ReadTxEntry (checked) + ReadValue                                *)
(*   EXc  ExportTx(skipIntegrityCheck = false)                             *)
(*   EXs  ExportTx(skipIntegrityCheck = true): record and values unchecked *)
(*        (outside the property: its result is not judged, but it fills    *)
(*        the cache with unverified bytes)                                 *)
(*   GET  index lookup + valueRef.Resolve (the index is up to date: the    *)
(*        tx record is not read)                                           *)
(* Alteration (once, before step Place+1; Place = 0: before the first      *)
(* read): "val" = the value bytes of A in the value log, "rec" = a byte of *)
(* the record of tA that the Alh covers.                                   *)
(* Cache modes: off (VLogCacheSize 0), small (1 entry: reading the other   *)
(* value evicts), large (both fit).                                        *)
(*                                                                         *)
(* Invariant Safe (the same property): every CHECKED read fails or returns *)
(* exactly the original; "ALTERED" is altered bytes returned as valid.     *)
(* Code as read: VerifyCacheHits = TRUE, PutBeforeVerify = TRUE: Safe      *)
(* holds.  Alternative design VerifyCacheHits = FALSE, PutBeforeVerify =   *)
(* FALSE (only verified bytes are ever cached): Safe holds.  The broken    *)
(* combination FALSE / TRUE violates Safe (TLC finds e.g. EXs(A); RV(A)).  *)
(*                                                                         *)
(* The ASSUME writes, for the harness, every relevant sequence of length 2 *)
(* and a seeded sample of the longer ones x placement x kind x cache mode  *)
(* with the expected outcome of every step.                                *)
(***************************************************************************)
EXTENDS Naturals, Sequences, FiniteSets, TLC, Json, FiniteSetsExt

CONSTANTS OutFile,          \* "" = do not write
          Seed,
          MaxLen,           \* longest read sequence
          SampleMod,        \* one of SampleMod longer sequences is written
          CacheModes,       \* subset of {"off", "small", "large"}
          VerifyCacheHits,  \* TRUE = the digest is compared for cache hits too (code as read)
          PutBeforeVerify   \* TRUE = bytes enter the cache before their digest is compared (code as read)

Values  == {"A", "B"}
Kinds   == {"val", "rec"}
OpNames == <<"RV", "RVE", "EXc", "EXs", "GET">>
OpSeq   == <<<<"RV", "A">>, <<"RVE", "A">>, <<"EXc", "A">>, <<"EXs", "A">>, <<"GET", "A">>,
             <<"RV", "B">>, <<"RVE", "B">>, <<"EXc", "B">>, <<"EXs", "B">>, <<"GET", "B">>>>
Ops     == {OpSeq[i] : i \in 1..Len(OpSeq)}
OpIdx(op) == CHOOSE i \in 1..Len(OpSeq) : OpSeq[i] = op

Checked(op) == op[1] # "EXs"
ReadsRecordChecked(op) == op[1] \in {"RV", "RVE", "EXc"}
Cap(mode) == CASE mode = "off" -> 0 [] mode = "small" -> 1 [] OTHER -> 2

Pristine == [disk |-> [v \in Values |-> "o"], rec |-> "o", cache |-> <<>>]
Alt(st, kind) == IF kind = "val" THEN [st EXCEPT !.disk["A"] = "x"] ELSE [st EXCEPT !.rec = "x"]

Cached(st, v) == \E i \in 1..Len(st.cache) : st.cache[i][1] = v
CachedBytes(st, v) == st.cache[CHOOSE i \in 1..Len(st.cache) : st.cache[i][1] = v][2]
PutCap(c, e, cap) == IF Len(c) >= cap THEN Append(Tail(c), e) ELSE Append(c, e)

\* one read: new state and outcome in {"orig", "error", "unjudged", "ALTERED"}
StepFn(st, op, mode) ==
  LET v == op[2]
      cap == Cap(mode)
      recBad == v = "A" /\ st.rec = "x"
  IN IF ReadsRecordChecked(op) /\ recBad THEN [st |-> st, out |-> "error"]    \* Alh mismatch before any value is touched
     ELSE
       LET hit == cap > 0 /\ Cached(st, v)
           bytes == IF hit THEN CachedBytes(st, v) ELSE st.disk[v]
           verified == Checked(op) /\ (~hit \/ VerifyCacheHits)
           mayPut == cap > 0 /\ ~hit /\ (PutBeforeVerify \/ (Checked(op) /\ bytes = "o"))
           st1 == IF mayPut THEN [st EXCEPT !.cache = PutCap(st.cache, <<v, bytes>>, cap)] ELSE st
           out == IF ~Checked(op) THEN "unjudged"
                  ELSE IF verified THEN (IF bytes = "o" THEN "orig" ELSE "error")
                  ELSE (IF bytes = "o" THEN "orig" ELSE "ALTERED")
       IN [st |-> st1, out |-> out]

-----------------------------------------------------------------------------
(* the machine: TLC explores every sequence up to MaxLen x placement x kind x cache mode *)
VARIABLES mode, kind, st, hist, altAt
vars == <<mode, kind, st, hist, altAt>>

Init == /\ mode \in CacheModes /\ kind \in Kinds /\ st = Pristine /\ hist = <<>> /\ altAt = MaxLen + 1

Alter == /\ altAt = MaxLen + 1 /\ Len(hist) < MaxLen
         /\ st' = Alt(st, kind) /\ altAt' = Len(hist)
         /\ UNCHANGED <<mode, kind, hist>>

Read(op) == /\ Len(hist) < MaxLen
            /\ LET r == StepFn(st, op, mode) IN
                 /\ st' = r.st
                 /\ hist' = Append(hist, [op |-> op, out |-> r.out])
            /\ UNCHANGED <<mode, kind, altAt>>

Next == Alter \/ \E op \in Ops : Read(op)
Spec == Init /\ [][Next]_vars

TypeOK == /\ Len(hist) <= MaxLen /\ Len(st.cache) <= Cap(mode)
          /\ \A i \in 1..Len(hist) : hist[i].out \in {"orig", "error", "unjudged", "ALTERED"}
Safe == \A i \in 1..Len(hist) : hist[i].out # "ALTERED"
\* before anything is altered every checked read returns the original
PristineFine == altAt = MaxLen + 1 => \A i \in 1..Len(hist) : hist[i].out \in {"orig", "unjudged"}
\* with the cache off a checked read of the altered value after the alteration always fails
OffIsDisk == mode = "off" => \A i \in 1..Len(hist) :
               (i > altAt /\ hist[i].op[2] = "A" /\ Checked(hist[i].op) /\ (kind = "val" \/ hist[i].op[1] # "GET")) => hist[i].out = "error"

-----------------------------------------------------------------------------
(* the cases written for the harness *)
RECURSIVE Go(_, _, _, _, _, _)
Go(seq, i, p, k, m, s) ==
  IF i > Len(seq) THEN <<>>
  ELSE LET s1 == IF i = p + 1 THEN Alt(s, k) ELSE s
           r == StepFn(s1, seq[i], m)
       IN <<r.out>> \o Go(seq, i + 1, p, k, m, r.st)
Exec(seq, p, k, m) == Go(seq, 1, p, k, m, Pristine)

\* relevant: some checked read of A happens at or after the alteration
Relevant(seq, p) == \E i \in (p + 1)..Len(seq) : seq[i][2] = "A" /\ Checked(seq[i])
SeqsOf(n) == [1..n -> Ops]
Hash(seq) == LET RECURSIVE h(_) h(i) == IF i > Len(seq) THEN 0 ELSE OpIdx(seq[i]) * (7 * i + 3) + h(i + 1) IN h(1)
Chosen(seq) == Len(seq) <= 2 \/ (Hash(seq) + Seed) % SampleMod = 0

CaseKeysSel == UNION {UNION {{<<seq, p>> : p \in {q \in 0..(n - 1) : Relevant(seq, q)}} : seq \in {s \in SeqsOf(n) : Chosen(s)}} : n \in 2..MaxLen}

RowOf(sp, k, m) == [seq |-> sp[1], place |-> sp[2], kind |-> k, mode |-> m, exp |-> Exec(sp[1], sp[2], k, m)]
Rows == FoldSet(LAMBDA x, acc : Append(acc, RowOf(x[1], x[2], x[3])), <<>>, CaseKeysSel \X Kinds \X CacheModes)

ASSUME OutFile = "" \/
  /\ PrintT(<<"cases", Cardinality(CaseKeysSel) * Cardinality(Kinds) * Cardinality(CacheModes)>>)
  /\ JsonSerialize(OutFile, [seed |-> Seed, maxLen |-> MaxLen, verifyCacheHits |-> VerifyCacheHits,
                             putBeforeVerify |-> PutBeforeVerify, cases |-> Rows])
=============================================================================
