----------------------------- MODULE ProofCases -----------------------------
(***************************************************************************)
(* Exhaustive enumeration for C01 over Proofs.tla: every history shape     *)
(* (non-decreasing BlTxID lag) up to N txs, every pair (trusted tx i,      *)
(* queried tx j), and for the response: the honest dual proof, the proof   *)
(* of a forked history H' (fork at f), every mixture replacing one         *)
(* component by the other history's, and every single alteration of every  *)
(* header field / proof term.  The client flow (pkg/client verifiedTxByID  *)
(* style) is: new alh := Alh(returned header); VerifyDualProof between the *)
(* trusted state and the new one.  For each case TLC evaluates the         *)
(* transcribed verifier (`go`) and the semantic truth (`truth`: the new    *)
(* state is linked to the trusted one along the linear chain).             *)
(***************************************************************************)
EXTENDS Proofs, Json, SequencesExt

CONSTANTS N, ShapeLo, ShapeHi, OutFile

ShapeSet == {s \in [1..N -> 0..(N - 1)] : s[1] = 0 /\ (\A k \in 1..N : s[k] < k) /\ (\A k \in 2..N : s[k] >= s[k - 1])}
\* deterministic order of the shapes (as sequences they are compared through their tuple of values)
RECURSIVE SortShapes(_)
Less(a, b) == \E k \in 1..N : a[k] < b[k] /\ \A m \in 1..(k - 1) : a[m] = b[m]
SortShapes(S) == IF S = {} THEN <<>> ELSE LET m == CHOOSE x \in S : \A y \in S \ {x} : Less(x, y) IN <<m>> \o SortShapes(S \ {m})
Shapes == SortShapes(ShapeSet)

VarH == [k \in 1..N |-> 1]
VarF(f) == [k \in 1..N |-> IF k >= f THEN 2 ELSE 1]
HistRaw(si, f) == HistUpto(Shapes[si], IF f > N THEN VarH ELSE VarF(f), N)
\* memo table (constant, evaluated once)
HistTab == [si \in ShapeLo..MinN(ShapeHi, Len(Shapes)) |-> [f \in 2..(N + 1) |-> HistRaw(si, f)]]
Hist(si, f) == HistTab[si][f]

HdrFields == {"id", "prev", "ts", "ver", "nent", "eh", "bl", "blroot"}
SeqComps == {"incl", "cons", "last", "linterms", "ladvterms"}
Comps == {"srcHdr", "tgtHdr", "incl", "cons", "tblAlh", "last", "lin", "ladv"}

AlterHdr(h, fld) ==
  CASE fld = "id" -> [h EXCEPT !.id = @ + 1]
    [] fld = "prev" -> [h EXCEPT !.prev = Junk(1)]
    [] fld = "ts" -> [h EXCEPT !.ts = @ + 1]
    [] fld = "ver" -> [h EXCEPT !.ver = 1 - @]
    [] fld = "nent" -> [h EXCEPT !.nent = @ + 1]
    [] fld = "eh" -> [h EXCEPT !.eh = Junk(2)]
    [] fld = "bl" -> [h EXCEPT !.bl = @ + 1]
    [] fld = "blroot" -> [h EXCEPT !.blroot = Junk(3)]

GetSeq(r, c) == CASE c = "incl" -> r.incl [] c = "cons" -> r.cons [] c = "last" -> r.last
                  [] c = "linterms" -> r.lin.terms [] c = "ladvterms" -> r.ladv.terms
SetSeq(r, c, s) == CASE c = "incl" -> [r EXCEPT !.incl = s] [] c = "cons" -> [r EXCEPT !.cons = s] [] c = "last" -> [r EXCEPT !.last = s]
                     [] c = "linterms" -> [r EXCEPT !.lin.terms = s] [] c = "ladvterms" -> [r EXCEPT !.ladv.terms = s]
AlterSeq(s, op, k) == CASE op = "drop" -> RemoveAt(s, k) [] op = "junk" -> [s EXCEPT ![k] = Junk(10 + k)] [] op = "dup" -> InsertAt(s, k, s[k])

\* every single alteration applicable to response r: <<comp, op, pos>>
AltsOf(r) ==
  {<<"srcHdr." \o f, "alt", 0>> : f \in HdrFields} \cup {<<"tgtHdr." \o f, "alt", 0>> : f \in HdrFields}
  \cup UNION {{<<c, op, k>> : op \in {"drop", "junk", "dup"}, k \in 1..Len(GetSeq(r, c))} : c \in SeqComps}
  \cup {<<"tblAlh", "junk", 0>>, <<"lin.src", "inc", 0>>, <<"lin.tgt", "inc", 0>>}
  \cup {<<"ladvincls", "drop", k>> : k \in 1..Len(r.ladv.incls)}
  \cup {<<"ladvincls", "junkfirst", k>> : k \in {q \in 1..Len(r.ladv.incls) : Len(r.ladv.incls[q]) > 0}}

Apply(r, a) ==
  LET c == a[1] op == a[2] k == a[3] IN
  IF \E f \in HdrFields : c = "srcHdr." \o f THEN [r EXCEPT !.srcHdr = AlterHdr(@, CHOOSE f \in HdrFields : c = "srcHdr." \o f)]
  ELSE IF \E f \in HdrFields : c = "tgtHdr." \o f THEN [r EXCEPT !.tgtHdr = AlterHdr(@, CHOOSE f \in HdrFields : c = "tgtHdr." \o f)]
  ELSE IF c \in SeqComps THEN SetSeq(r, c, AlterSeq(GetSeq(r, c), op, k))
  ELSE IF c = "tblAlh" THEN [r EXCEPT !.tblAlh = Junk(4)]
  ELSE IF c = "lin.src" THEN [r EXCEPT !.lin.src = @ + 1]
  ELSE IF c = "lin.tgt" THEN [r EXCEPT !.lin.tgt = @ + 1]
  ELSE IF c = "ladvincls" /\ op = "drop" THEN [r EXCEPT !.ladv.incls = RemoveAt(@, k)]
  ELSE [r EXCEPT !.ladv.incls[k][1] = Junk(5)]

\* component c of r replaced by the one of o
Mix(r, o, c) ==
  CASE c = "srcHdr" -> [r EXCEPT !.srcHdr = o.srcHdr] [] c = "tgtHdr" -> [r EXCEPT !.tgtHdr = o.tgtHdr]
    [] c = "incl" -> [r EXCEPT !.incl = o.incl] [] c = "cons" -> [r EXCEPT !.cons = o.cons]
    [] c = "tblAlh" -> [r EXCEPT !.tblAlh = o.tblAlh] [] c = "last" -> [r EXCEPT !.last = o.last]
    [] c = "lin" -> [r EXCEPT !.lin = o.lin] [] c = "ladv" -> [r EXCEPT !.ladv = o.ladv]

\* the client: trusted (i, alh of tx i in history H); the response r is about tx j
Verdict(hsH, i, j, r) ==
  LET trusted == HAlh(hsH[i])
      lo == MinN(i, j)  hi == MaxN(i, j)
      newAlh == IF i <= j THEN HAlh(r.tgtHdr) ELSE HAlh(r.srcHdr)
      srcAlh == IF i <= j THEN trusted ELSE newAlh
      tgtAlh == IF i <= j THEN newAlh ELSE trusted
  IN [go |-> VerifyDual(r, lo, hi, srcAlh, tgtAlh),
      truth |-> ChainLinked(srcAlh, tgtAlh, hi - lo)
                /\ (IF i <= j THEN r.tgtHdr.id = j ELSE r.srcHdr.id = j)]

Case(si, f, i, j, kind, a, hsH, r) ==
  LET v == Verdict(hsH, i, j, r) IN
  [shape |-> si, f |-> f, q |-> 0, i |-> i, j |-> j, kind |-> kind, comp |-> a[1], op |-> a[2], pos |-> a[3], go |-> v.go, truth |-> v.truth]

NoAlt == <<"", "", 0>>
CasesFor(si) ==
  LET hsH == Hist(si, N + 1) IN
  UNION {
    LET lo == MinN(ij[1], ij[2])  hi == MaxN(ij[1], ij[2])
        honest == GenDual(hsH, lo, hi)
    IN {Case(si, N + 1, ij[1], ij[2], "honest", NoAlt, hsH, honest)}
       \cup {Case(si, N + 1, ij[1], ij[2], "alt", a, hsH, Apply(honest, a)) : a \in AltsOf(honest)}
       \cup UNION {
            LET fork == GenDual(Hist(si, f), lo, hi) IN
            {Case(si, f, ij[1], ij[2], "forkall", NoAlt, hsH, fork)}
            \cup {Case(si, f, ij[1], ij[2], "mix", <<c, "fromfork", 0>>, hsH, Mix(honest, fork, c)) : c \in Comps}
            \cup {Case(si, f, ij[1], ij[2], "mixr", <<c, "fromhonest", 0>>, hsH, Mix(fork, honest, c)) : c \in Comps}
          : f \in 2..N}
    : ij \in (1..N) \X (1..N)}

\* split-view server (Proofs!HistPoison): from transaction q on, the headers embed roots of a tree whose leaf p < q is foreign; the
\* response about j >= i is what the generator yields over that tree.  The trusted state i is clean (it embeds the honest tree, or
\* p is beyond its tree).  The new state must be refused when its tree disowns a transaction the client already holds in its
\* chain: j >= q and p <= min(i, T.bl) (what the consistency proof and the linear advance proof are for).
PoisonCasesFor(si) ==
  UNION {
    LET p == pq[1]  q == pq[2]
        hp == HistPoison(Shapes[si], VarH, N, p, q)  tree == TreeLeaves(hp, p) IN
    {LET i == c[1]  j == c[2]
         r == GenDualT(hp, tree, i, j, c[3])
         trusted == HAlh(hp[i])  newAlh == HAlh(r.tgtHdr) IN
     [shape |-> si, f |-> p, q |-> q, i |-> i, j |-> j, kind |-> "poison", comp |-> IF c[3] THEN "tblFromTree" ELSE "tblFromChain", op |-> "", pos |-> 0,
      go |-> VerifyDual(r, i, j, trusted, newAlh),
      truth |-> ChainLinked(trusted, newAlh, j - i) /\ ~(j >= q /\ p <= MinN(i, hp[j].bl))]
     : c \in {c \in (1..N) \X (1..N) \X BOOLEAN : c[1] <= c[2] /\ (c[1] < q \/ p > hp[c[1]].bl)}}
    : pq \in {pq \in (1..N) \X (2..N) : pq[1] < pq[2]}}

AllCases == UNION {CasesFor(si) \cup PoisonCasesFor(si) : si \in ShapeLo..MinN(ShapeHi, Len(Shapes))}

Complete == \A c \in AllCases : c.kind = "honest" => c.go /\ c.truth
\* within the enumerated space the transcribed verifier never accepts a state that is not linked to the trusted one
ModelSound == \A c \in AllCases : c.go => c.truth

ASSUME PrintT(<<"shapes", Len(Shapes), "cases", Cardinality(AllCases)>>)
ASSUME PrintT(<<"Complete", Complete>>)
ASSUME PrintT(<<"ModelSound", ModelSound>>)
ASSUME PrintT(<<"unsound", {<<c.shape, c.f, c.i, c.j, c.kind, c.comp, c.op, c.pos>> : c \in {c \in AllCases : c.go /\ ~c.truth}}>>)
ASSUME PrintT(<<"poison", Cardinality({c \in AllCases : c.kind = "poison"}), "refused-needed", Cardinality({c \in AllCases : c.kind = "poison" /\ ~c.truth}), "accepted", Cardinality({c \in AllCases : c.kind = "poison" /\ c.go})>>)
ASSUME PrintT(<<"accepted-nonhonest", Cardinality({c \in AllCases : c.go /\ c.kind # "honest"})>>)
ASSUME JsonSerialize(OutFile, [N |-> N, shapes |-> Shapes, cases |-> SetToSeq(AllCases)])

VARIABLE x
Init == x = 0
Next == x < 1 /\ x' = x + 1
=============================================================================
