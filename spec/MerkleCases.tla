---------------------------- MODULE MerkleCases ----------------------------
(***************************************************************************)
(* Finite, exhaustive enumeration of hash-tree cases for property C08:     *)
(*  - TLC proves (ASSUME) that the transcribed generators equal the        *)
(*    reference construction for every size/index pair up to N, that every *)
(*    honest proof verifies (completeness) and that the reference          *)
(*    verifiers are sound on the whole enumerated universe;                *)
(*  - it writes every case with three verdicts (transcribed Go verifier,   *)
(*    RFC verifier, semantic truth) to a JSON file; the Go harness         *)
(*    concretises the symbolic terms with SHA-256 and runs the real        *)
(*    ahtree / htree code on each of them.                                 *)
(* A term descriptor is <<lo, hi, v>>: MTH of leaves lo..hi of the leaf    *)
(* sequence Dv(v) (v = 0: the base sequence; v > 0: leaf v replaced);      *)
(* lo = 0 denotes the junk atom number hi.                                 *)
(***************************************************************************)
EXTENDS Merkle, Json, SequencesExt

CONSTANTS Part,       \* which family of cases this run computes: "gen", "incl", "cons", "last", "ht"
          N,          \* largest tree size
          RelabelPad, \* claimed positions/sizes range over 0..N+RelabelPad
          OutFile

Dv(v) == [k \in 1..(N + 2) |-> IF k = v THEN 1000 + k ELSE k]
D0 == Dv(0)
TRaw(d) == IF d[1] = 0 THEN Junk(d[2]) ELSE MTH(Dv(d[3]), d[1], d[2])
\* memo table (a constant, evaluated once by TLC): every descriptor that can occur in a case
DescUniverse == {<<lo, hi, v>> \in (1..N) \X (1..N) \X (0..N) : lo <= hi} \cup {<<0, k, 0>> : k \in 0..(60 + N)}
TT == [d \in DescUniverse |-> TRaw(d)]
T(d) == TT[d]
TS(ds) == [q \in 1..Len(ds) |-> T(ds[q])]

Ranges == {<<lo, hi, 0>> : lo \in 1..N, hi \in 1..N} \ {<<lo, hi, 0>> : lo \in 1..N, hi \in 0..0}
ValidRanges == {r \in Ranges : r[1] <= r[2]}
\* descriptor of an honest subtree term (unique in the free algebra)
DescOf(t) == CHOOSE r \in ValidRanges : T(r) = t
DescsOf(ts) == [q \in 1..Len(ts) |-> DescOf(ts[q])]

DL == GoDLog(D0, N)
Pairs == {<<i, j>> \in (1..N) \X (1..N) : i <= j}
Claims == (0..(N + RelabelPad)) \X (0..(N + RelabelPad))

-----------------------------------------------------------------------------
(* generation equals the reference; completeness                            *)
RootsEqual == \A n \in 1..N : GoRootAt(DL, n) = MTH(D0, 1, n)
InclProofsEqual == \A ij \in Pairs : GoInclusionProof(DL, ij[1], ij[2]) = Path(D0, ij[1], 1, ij[2])
ConsProofsEqual == \A ij \in Pairs : GoConsistencyProof(DL, ij[1], ij[2]) = RefConsistency(D0, ij[1], ij[2])
HtRootsEqual == \A w \in 1..N : HtRoot(D0, w) = MTH(D0, 1, w)
HtProofsEqual == \A w \in 1..N : \A x \in 0..(w - 1) : HtInclusionProof(D0, w, x) = Path(D0, x + 1, 1, w)

Complete ==
  /\ \A ij \in Pairs : LET i == ij[1] j == ij[2] IN
        /\ GoVerifyInclusion(Path(D0, i, 1, j), i, j, Leaf(i), MTH(D0, 1, j))
        /\ RfcVerifyInclusion(Path(D0, i, 1, j), i, j, Leaf(i), MTH(D0, 1, j))
        /\ GoVerifyConsistency(RefConsistency(D0, i, j), i, j, MTH(D0, 1, i), MTH(D0, 1, j))
        /\ RfcVerifyConsistency(RefConsistency(D0, i, j), i, j, MTH(D0, 1, i), MTH(D0, 1, j))
  /\ \A i \in 1..N : GoVerifyLastInclusion(RefLastInclusion(D0, i), i, Leaf(i), MTH(D0, 1, i))
  /\ \A w \in 1..N : \A x \in 0..(w - 1) : HtVerifyInclusion(Path(D0, x + 1, 1, w), x, w, Leaf(x + 1), MTH(D0, 1, w))

-----------------------------------------------------------------------------
(* proof mutations: every single-step alteration of a descriptor sequence   *)
Mutations(p) ==
  {<<"none", p>>}
  \cup {<<"drop", RemoveAt(p, k)>> : k \in 1..Len(p)}
  \cup {<<"extra", InsertAt(p, k, <<0, k, 0>>)>> : k \in 1..(Len(p) + 1)}
  \cup {<<"junk", [p EXCEPT ![k] = <<0, 50 + k, 0>>]>> : k \in 1..Len(p)}
  \cup {<<"swap", [p EXCEPT ![k] = p[k + 1], ![k + 1] = p[k]]>> : k \in 1..(Len(p) - 1)}
  \cup {<<"dup", InsertAt(p, k, p[k])>> : k \in 1..Len(p)}

\* szok: the claimed size(s) are the real size(s) of the supplied root(s).  A verifier cannot tell the
\* size of a tree from its root, so the oracle is: with the right sizes, accept only the true statement
\* with its reference proof; with wrong sizes, accept at most what the reference verifier accepts.
Allowed(szok, truth, rfc) == IF szok THEN truth ELSE rfc
InclCase(cls, pd, i, j, leafd, rootd, truth) ==
  LET rfc == RfcVerifyInclusion(TS(pd), i, j, T(leafd), T(rootd))
      szok == rootd[1] = 1 /\ rootd[2] = j
  IN [cls |-> cls, p |-> pd, i |-> i, j |-> j, leaf |-> leafd, root |-> rootd,
      go |-> GoVerifyInclusion(TS(pd), i, j, T(leafd), T(rootd)),
      rfc |-> rfc, szok |-> szok, allowed |-> Allowed(szok, truth, rfc)]

HonestIncl(i, j) == DescsOf(Path(D0, i, 1, j))
LeafD(i) == <<i, i, 0>>
RootD(n) == <<1, n, 0>>

InclCases ==
  \* honest proofs, every claimed (position, size): true only for the real pair
  {InclCase(IF c = ij THEN "honest" ELSE "relabel", HonestIncl(ij[1], ij[2]), c[1], c[2], LeafD(ij[1]), RootD(ij[2]), c = ij)
     : ij \in Pairs, c \in Claims}
  \* altered proofs under the true claim, a neighbouring leaf, a neighbouring root, a forked root
  \cup UNION {{InclCase(m[1], m[2], ij[1], ij[2], LeafD(ij[1]), RootD(ij[2]), m[1] = "none") : m \in Mutations(HonestIncl(ij[1], ij[2]))} : ij \in Pairs}
  \cup {InclCase("otherleaf", HonestIncl(ij[1], ij[2]), ij[1], ij[2], LeafD(x), RootD(ij[2]), x = ij[1]) : ij \in Pairs, x \in 1..N}
  \cup {InclCase("otherroot", HonestIncl(ij[1], ij[2]), ij[1], ij[2], LeafD(ij[1]), RootD(n), n = ij[2]) : ij \in Pairs, n \in 1..N}
  \cup {InclCase("forkroot", HonestIncl(ij[1], ij[2]), ij[1], ij[2], LeafD(ij[1]), <<1, ij[2], v>>, v > ij[2]) : ij \in Pairs, v \in 1..N}

\* ---- proof-solving adversary for inclusion: does ANY proof make the transcribed Go verifier accept
\* the claim (i, j, leaf x, root of size n)?  In the free algebra the proof is forced by the root term.
RECURSIVE GoSolve(_, _, _, _, _, _)
GoSolve(lo, hi, L, i1, j1, x) ==        \* returns <<ok, proof (bottom-up)>>
  IF L = 0 THEN <<lo = hi /\ lo = x, <<>>>>
  ELSE IF lo = hi THEN <<FALSE, <<>>>>
  ELSE LET k == Split(hi - lo + 1)
           ii == i1 \div Pow2(L - 1)
           jj == j1 \div Pow2(L - 1)
           goesLeft == (ii % 2 = 0) /\ (ii # jj)     \* cur is the left child: sibling is the right one
           sub == IF goesLeft THEN GoSolve(lo, lo + k - 1, L - 1, i1, j1, x) ELSE GoSolve(lo + k, hi, L - 1, i1, j1, x)
           sib == IF goesLeft THEN <<lo + k, hi, 0>> ELSE <<lo, lo + k - 1, 0>>
       IN <<sub[1], Append(sub[2], sib)>>
SolvedIncl ==
  {<<c, x, n, L>> \in Claims \X (1..N) \X (1..N) \X (0..(BitLen(N) + 1)) :
      /\ c[1] >= 1 /\ c[1] <= c[2] /\ (c[1] < c[2] => L > 0)
      /\ GoSolve(1, n, L, c[1] - 1, c[2] - 1, x)[1]}
SolvedCases ==
  {InclCase("solved", GoSolve(1, s[3], s[4], s[1][1] - 1, s[1][2] - 1, s[2])[2], s[1][1], s[1][2], LeafD(s[2]), RootD(s[3]),
            s[1][1] = s[2] /\ s[1][2] = s[3]) : s \in SolvedIncl}

-----------------------------------------------------------------------------
ConsCase(cls, pd, i, j, ird, jrd, truth) ==
  LET rfc == RfcVerifyConsistency(TS(pd), i, j, T(ird), T(jrd))
      szok == ird[2] = i /\ jrd[2] = j
  IN [cls |-> cls, p |-> pd, i |-> i, j |-> j, iroot |-> ird, jroot |-> jrd,
      go |-> GoVerifyConsistency(TS(pd), i, j, T(ird), T(jrd)),
      rfc |-> rfc, szok |-> szok, allowed |-> Allowed(szok, truth, rfc)]
HonestCons(i, j) == DescsOf(RefConsistency(D0, i, j))
ConsCases ==
  {ConsCase(IF c = ij THEN "honest" ELSE "relabel", HonestCons(ij[1], ij[2]), c[1], c[2], RootD(ij[1]), RootD(ij[2]), c = ij)
     : ij \in Pairs, c \in Claims}
  \cup UNION {{ConsCase(m[1], m[2], ij[1], ij[2], RootD(ij[1]), RootD(ij[2]), m[1] = "none") : m \in Mutations(HonestCons(ij[1], ij[2]))} : ij \in Pairs}
  \cup {ConsCase("otheriroot", HonestCons(ij[1], ij[2]), ij[1], ij[2], RootD(n), RootD(ij[2]), n = ij[1]) : ij \in Pairs, n \in 1..N}
  \cup {ConsCase("otherjroot", HonestCons(ij[1], ij[2]), ij[1], ij[2], RootD(ij[1]), RootD(n), n = ij[2]) : ij \in Pairs, n \in 1..N}
  \* forked histories: the old root comes from a sequence that differs in leaf v (v <= i: inconsistent)
  \cup {ConsCase("forkiroot", HonestCons(ij[1], ij[2]), ij[1], ij[2], <<1, ij[1], v>>, RootD(ij[2]), v > ij[1]) : ij \in Pairs, v \in 1..N}
  \cup {ConsCase("forkjroot", HonestCons(ij[1], ij[2]), ij[1], ij[2], RootD(ij[1]), <<1, ij[2], v>>, v > ij[2]) : ij \in Pairs, v \in 1..N}

-----------------------------------------------------------------------------
LastCase(cls, pd, i, leafd, rootd, truth) ==
  LET rfc == RfcVerifyInclusion(TS(pd), i, i, T(leafd), T(rootd))
      szok == rootd[2] = i
  IN [cls |-> cls, p |-> pd, i |-> i, leaf |-> leafd, root |-> rootd,
      go |-> GoVerifyLastInclusion(TS(pd), i, T(leafd), T(rootd)),
      rfc |-> rfc, szok |-> szok, allowed |-> Allowed(szok, truth, rfc)]
HonestLast(i) == DescsOf(RefLastInclusion(D0, i))
LastCases ==
  {LastCase(IF c = i THEN "honest" ELSE "relabel", HonestLast(i), c, LeafD(i), RootD(i), c = i) : i \in 1..N, c \in 0..(N + RelabelPad)}
  \cup UNION {{LastCase(m[1], m[2], i, LeafD(i), RootD(i), m[1] = "none") : m \in Mutations(HonestLast(i))} : i \in 1..N}
  \cup {LastCase("otherleaf", HonestLast(i), i, LeafD(x), RootD(i), x = i) : i \in 1..N, x \in 1..N}
  \cup {LastCase("otherroot", HonestLast(i), i, LeafD(i), RootD(n), n = i) : i \in 1..N, n \in 1..N}
  \* an inner-leaf inclusion proof presented as a last-inclusion proof
  \cup {LastCase("inner", HonestIncl(ij[1], ij[2]), ij[1], LeafD(ij[1]), RootD(ij[2]), ij[1] = ij[2]) : ij \in Pairs}

-----------------------------------------------------------------------------
(* htree: leaf index x is 0-based, width w                                   *)
HtCase(cls, pd, x, w, leafd, rootd, truth) ==
  LET rfc == RfcVerifyInclusion(TS(pd), x + 1, w, T(leafd), T(rootd))
      szok == rootd[2] = w
  IN [cls |-> cls, p |-> pd, x |-> x, w |-> w, leaf |-> leafd, root |-> rootd,
      go |-> HtVerifyInclusion(TS(pd), x, w, T(leafd), T(rootd)),
      rfc |-> rfc, szok |-> szok, allowed |-> Allowed(szok, truth, rfc)]
HtPairs == {<<x, w>> \in (0..(N - 1)) \X (1..N) : x < w}
HonestHt(x, w) == DescsOf(Path(D0, x + 1, 1, w))
HtCases ==
  {HtCase(IF c = xw THEN "honest" ELSE "relabel", HonestHt(xw[1], xw[2]), c[1], c[2], LeafD(xw[1] + 1), RootD(xw[2]), c = xw)
     : xw \in HtPairs, c \in Claims}
  \cup UNION {{HtCase(m[1], m[2], xw[1], xw[2], LeafD(xw[1] + 1), RootD(xw[2]), m[1] = "none") : m \in Mutations(HonestHt(xw[1], xw[2]))} : xw \in HtPairs}
  \cup {HtCase("otherleaf", HonestHt(xw[1], xw[2]), xw[1], xw[2], LeafD(y), RootD(xw[2]), y = xw[1] + 1) : xw \in HtPairs, y \in 1..N}
  \cup {HtCase("otherroot", HonestHt(xw[1], xw[2]), xw[1], xw[2], LeafD(xw[1] + 1), RootD(n), n = xw[2]) : xw \in HtPairs, n \in 1..N}

-----------------------------------------------------------------------------
AllIncl == InclCases \cup SolvedCases
Unsound(S) == Cardinality({c \in S : c.go /\ ~c.allowed})

Shape == [k \in 1..(N + 1) |-> Split(k + 1)]   \* Shape[k] = split point of a range of k + 1 leaves

Gen == /\ PrintT(<<"RootsEqual", RootsEqual>>)
       /\ PrintT(<<"InclProofsEqual", InclProofsEqual>>)
       /\ PrintT(<<"ConsProofsEqual", ConsProofsEqual>>)
       /\ PrintT(<<"HtRootsEqual", HtRootsEqual>>)
       /\ PrintT(<<"HtProofsEqual", HtProofsEqual>>)
       /\ PrintT(<<"Complete", Complete>>)
       /\ JsonSerialize(OutFile, [N |-> N, shape |-> Shape,
              roots |-> [n \in 1..N |-> DescOf(GoRootAt(DL, n))],
              inclProofs |-> SetToSeq({[i |-> ij[1], j |-> ij[2], p |-> DescsOf(GoInclusionProof(DL, ij[1], ij[2]))] : ij \in Pairs}),
              consProofs |-> SetToSeq({[i |-> ij[1], j |-> ij[2], p |-> DescsOf(GoConsistencyProof(DL, ij[1], ij[2]))] : ij \in Pairs}),
              htProofs |-> SetToSeq({[x |-> xw[1], w |-> xw[2], p |-> DescsOf(HtInclusionProof(D0, xw[2], xw[1]))] : xw \in HtPairs})])

Family(S, strictOk) ==
  /\ PrintT(<<"RefSound", \A c \in S : c.rfc => c.allowed>>)
  /\ PrintT(<<"RefComplete", \A c \in S : c.cls = "honest" => c.rfc>>)
  /\ PrintT(<<"StrictEqualsRef", strictOk>>)
  /\ PrintT(<<"counts", Cardinality(S), "go-unsound", Unsound(S)>>)
  /\ JsonSerialize(OutFile, [N |-> N, shape |-> Shape, cases |-> SetToSeq(S)])

ASSUME CASE Part = "gen" -> Gen
         [] Part = "incl" -> Family(AllIncl, \A c \in AllIncl : GoVerifyInclusionStrict(TS(c.p), c.i, c.j, T(c.leaf), T(c.root)) = c.rfc)
         [] Part = "cons" -> Family(ConsCases, \A c \in ConsCases : GoVerifyConsistencyStrict(TS(c.p), c.i, c.j, T(c.iroot), T(c.jroot)) = c.rfc)
         [] Part = "last" -> Family(LastCases, \A c \in LastCases : GoVerifyLastInclusionStrict(TS(c.p), c.i, T(c.leaf), T(c.root)) = c.rfc)
         [] Part = "ht" -> Family(HtCases, \A c \in HtCases : HtVerifyInclusionStrict(TS(c.p), c.x, c.w, T(c.leaf), T(c.root)) = c.rfc)

VARIABLE x
Init == x = 0
Next == x < 1 /\ x' = x + 1
=============================================================================
