------------------------------ MODULE MCKVLin ------------------------------
(***************************************************************************)
(* Exhaustive sanity configuration of KVLin.tla: 3 clients, 2 keys, <= 3   *)
(* operations per client (scripts generated from VERIF_SEED by             *)
(* checks/C06.py, env VERIF_SCRIPT = JSON array (per client) of arrays of  *)
(* operations in the format of the trace).  TLC explores every             *)
(* interleaving of Call / Lin / Return.                                    *)
(*                                                                         *)
(* What is checked is that the module says what is intended:               *)
(*  - PreIff: a write with preconditions is applied iff every precondition *)
(*    holds in the state immediately before its linearization point        *)
(*    (preconditions restated here directly on the version lists);         *)
(*  - OneTx: a successful write is exactly one transaction (committed + 1, *)
(*    all its versions carry that tx id), anything else leaves the state   *)
(*    untouched;                                                           *)
(*  - RealTime: an atomic read linearizes on a state that contains every   *)
(*    write acknowledged before the read was called; a relaxed read        *)
(*    (SinceTx / NoWait) need not, but never returns a state older than    *)
(*    SinceTx;                                                             *)
(*  - LinInv of KVLin.                                                     *)
(* The Lin step is split by result class (MCLinApplied, MCLinRefused, ...)  *)
(* and every action counts its firings in a TLC register (-workers 1),     *)
(* printed by the POSTCONDITION: per-action coverage, so that the check    *)
(* can see that both the applied and the refused branch of conditional     *)
(* writes were explored.                                                   *)
(***************************************************************************)
EXTENDS KVLin, Json, IOUtils, TLCExt

Scripts == JsonDeserialize(IOEnv.VERIF_SCRIPT)

MCKeySeq == <<"a0", "b0">>
MCKeyGroup == [k \in {"a0"} |-> "a"] @@ [k \in {"b0"} |-> "b"]
MCClients == 1..Len(Scripts)

VARIABLES pc,      \* client -> number of operations started
          floor    \* client -> highest tx acknowledged to any client when its current operation was called
mcvars == <<vars, pc, floor>>

VARIABLE acked     \* highest tx id returned to a client so far
allvars == <<mcvars, acked>>

ActionNames == <<"MCCall", "MCRet", "MCLinApplied", "MCLinRefused", "MCLinRead", "MCLinNotFound", "MCLinOtherErr">>
Count(i) == TLCSet(10 + i, TLCGet(10 + i) + 1)

MCInit == Init /\ pc = [c \in Clients |-> 0] /\ floor = [c \in Clients |-> 0] /\ acked = 0
          /\ \A i \in 1..Len(ActionNames) : TLCSet(10 + i, 0)

MCCall(c) ==
  /\ pc[c] < Len(Scripts[c])
  /\ Call(c, Scripts[c][pc[c] + 1])
  /\ pc' = [pc EXCEPT ![c] = @ + 1]
  /\ floor' = [floor EXCEPT ![c] = acked]
  /\ UNCHANGED acked
  /\ Count(1)

MCLin(c, classes, i) ==
  /\ Lin(c)
  /\ pend'[c].res.e \in classes
  /\ UNCHANGED <<pc, floor, acked>>
  /\ Count(i)
MCLinApplied(c)  == IsWrite(pend[c].op) /\ MCLin(c, {"ok"}, 3)
MCLinRefused(c)  == MCLin(c, {"PreconditionFailed"}, 4)
MCLinRead(c)     == ~IsWrite(pend[c].op) /\ MCLin(c, {"ok"}, 5)
MCLinNotFound(c) == MCLin(c, {"KeyNotFound"}, 6)
MCLinOtherErr(c) == MCLin(c, {"FinalKey", "RefToRef", "TxNotFound", "InvalidRevision", "ResolutionLimit", "NoMoreEntries",
                              "IllegalArguments", "ReadConflict", "Other"}, 7)

MCRet(c) ==
  /\ Return(c, pend[c].res)
  /\ acked' = IF pend[c].res.tx > acked THEN pend[c].res.tx ELSE acked
  /\ UNCHANGED <<pc, floor>>
  /\ Count(2)

MCNext == \E c \in Clients : \/ MCCall(c) \/ MCRet(c)
                             \/ MCLinApplied(c) \/ MCLinRefused(c) \/ MCLinRead(c) \/ MCLinNotFound(c) \/ MCLinOtherErr(c)
MCSpec == MCInit /\ [][MCNext]_allvars

----------------------------------------------------------------------------
\* preconditions restated directly on the version lists (independent of VersAt / Visible / PreOK)
Holds(p) ==
  LET vs == kv[p.k] IN
  CASE p.t = "E" -> Len(vs) > 0 /\ vs[Len(vs)].kind \in {"v", "r"}
    [] p.t = "N" -> Len(vs) = 0 \/ vs[Len(vs)].kind = "d"
    [] p.t = "M" -> \A i \in 1..Len(vs) : vs[i].tx <= p.tx

LinStep(c) == pend[c].st = "called" /\ pend'[c].st = "lined"

PreIff ==
  [][\A c \in Clients :
       (LinStep(c) /\ pend[c].op.t = "Set") =>
          /\ pend'[c].res.e = "ok" => \A i \in 1..Len(pend[c].op.pre) : Holds(pend[c].op.pre[i])
          /\ pend'[c].res.e = "PreconditionFailed" => \E i \in 1..Len(pend[c].op.pre) : ~Holds(pend[c].op.pre[i])
          /\ pend'[c].res.e \in {"ok", "PreconditionFailed", "Other"}]_allvars

OneTx ==
  [][\A c \in Clients : LinStep(c) =>
       IF pend'[c].res.e = "ok" /\ IsWrite(pend[c].op)
       THEN /\ committed' = committed + 1 /\ pend'[c].res.tx = committed'
            /\ \A k \in Keys : \/ kv'[k] = kv[k]
                               \/ /\ Len(kv'[k]) = Len(kv[k]) + 1 /\ SubSeq(kv'[k], 1, Len(kv[k])) = kv[k]
                                  /\ kv'[k][Len(kv'[k])].tx = committed'
       ELSE (pend'[c].res.e # "Other" \/ ~IsWrite(pend[c].op)) => (kv' = kv /\ zs' = zs /\ committed' = committed)]_allvars

\* atomic reads see every acknowledged write: their linearization point lies after their call
RealTime ==
  [][\A c \in Clients : (LinStep(c) /\ ~IsWrite(pend[c].op)) => committed >= floor[c]]_allvars

\* a relaxed Get never returns a value older than SinceTx allows: its entry is the newest version with tx <= some n >= SinceTx
RelaxedBound ==
  [][\A c \in Clients :
       (LinStep(c) /\ pend[c].op.t = "Get" /\ pend[c].op.mode = "since" /\ pend'[c].res.e = "ok") =>
          LET e == pend'[c].res.ents[1]
              k == IF e.rk = "" THEN e.k ELSE e.rk
              newer == {i \in 1..Len(kv[k]) : kv[k][i].tx > (IF e.rk = "" THEN e.tx ELSE e.rtx)}
          IN \A i \in newer : kv[k][i].tx > pend[c].op.n]_allvars

\* POSTCONDITION: per-action coverage (number of times each action fired)
MCReport == PrintT(<<"COV:", ToJson([i \in 1..Len(ActionNames) |-> <<ActionNames[i], TLCGet(10 + i)>>])>>)
=============================================================================
