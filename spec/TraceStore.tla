----------------------------- MODULE TraceStore -----------------------------
(***************************************************************************)
(* Trace validation of real ImmuStore executions against Store.tla.        *)
(* The ndjson file (env VERIF_TRACE) holds one event per line, emitted by  *)
(* the verif hooks under the lock that protects the state they describe    *)
(* (embedded/verifhook), interleaved with driver-level events (Ack,        *)
(* Observed, Reloaded).  Digests are logged as dictionary numbers          *)
(* (0 = the Alh before tx 1).  Many runs are concatenated: a Reset event   *)
(* starts a fresh store.                                                   *)
(***************************************************************************)
EXTENDS Store, Json, IOUtils, TLCExt

TraceLog == ndJsonDeserialize(IOEnv.VERIF_TRACE)

VARIABLE l      \* next line to consume
tvars == <<vars, l>>

Ev == TraceLog[l]
IsEvent(e) == l <= Len(TraceLog) /\ TraceLog[l].ev = e /\ l' = l + 1

TraceInit == StoreInit(FALSE, FALSE) /\ l = 1

TReset ==
  /\ IsEvent("Reset")
  /\ synced' = Ev.synced /\ extAllow' = Ev.ext /\ log' = <<>> /\ committed' = 0 /\ allowed' = 0
  /\ cflushed' = 0 /\ cdurable' = 0 /\ hist' = <<>> /\ acked' = {} /\ cont' = <<>> /\ seen' = <<>> /\ open' = TRUE

TPrecommit   == IsEvent("Precommit") /\ Precommit(Ev.id, Ev.alh, Ev.prev, Ev.bl, Ev.blOk, Ev.aht, Ev.maxActive)
TVLogsSynced == IsEvent("VLogsSynced") /\ VLogsSynced
TTxLogSynced == IsEvent("TxLogSynced") /\ TxLogSynced(Ev.upto)
TCLogFlushed == IsEvent("CLogFlushed") /\ CLogFlushed(Ev.from, Ev.to)
TCLogSynced  == IsEvent("CLogSynced") /\ CLogSynced(Ev.upto)
TCommitted   == IsEvent("Committed") /\ Committed(Ev.upto, Ev.alh)
TDiscard     == IsEvent("Discard") /\ Discard(Ev.since, Ev.n)
TAllow       == IsEvent("Allow") /\ Allow(Ev.upto)
TAck         == IsEvent("Ack") /\ Ack(Ev.id, Ev.alh, Ev.content)
TObserved    == IsEvent("Observed") /\ Observed(Ev.id, Ev.alh, Ev.chainOk, Ev.content, Ev.via)
TClose       == IsEvent("Closed") /\ Close
TOpened      == IsEvent("Opened") /\ Opened(Ev.c, Ev.reloaded)
\* the committed frontier reported by the public API (CommittedAlh) after a quiescent point
TState       == IsEvent("State") /\ Ev.committed = committed
                /\ Ev.alh = (IF committed = 0 THEN Genesis ELSE hist[committed]) /\ UNCHANGED vars

TraceNext == \/ TReset \/ TPrecommit \/ TVLogsSynced \/ TTxLogSynced \/ TCLogFlushed \/ TCLogSynced
             \/ TCommitted \/ TDiscard \/ TAllow \/ TAck \/ TObserved \/ TClose \/ TOpened \/ TState
TraceSpec == TraceInit /\ [][TraceNext]_tvars

\* every line was explained by an action of Store.tla (deterministic: one state per consumed line)
TraceAccepted ==
  LET d == TLCGet("stats").diameter IN
  IF d - 1 = Len(TraceLog) THEN TRUE
  ELSE Print(<<"TRACE-REJECTED-AT-LINE", d, IF d <= Len(TraceLog) THEN TraceLog[d] ELSE "eof">>, FALSE)
=============================================================================
