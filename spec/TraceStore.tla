----------------------------- MODULE TraceStore -----------------------------
(***************************************************************************)
(* Trace validation of real ImmuStore executions against Store.tla.        *)
(* The ndjson file (env VERIF_TRACE) holds one event per line, emitted by  *)
(* the verif hooks under the lock that protects the state they describe    *)
(* (embedded/verifhook), interleaved with driver-level events (Ack,        *)
(* Observed, Reloaded).  Digests are logged as dictionary numbers          *)
(* (0 = the Alh before tx 1).  Many runs are concatenated: a Reset event   *)
(* starts a fresh store.                                                   *)
(***************************************************************************)
EXTENDS Store, Json, IOUtils, TLCExt

TraceLog == ndJsonDeserialize(IOEnv.VERIF_TRACE)

VARIABLES l,    \* next line to consume
          bad   \* crash images whose recovery the specification rejects (collected, reported at the end)
tvars == <<vars, l, bad>>

Ev == TraceLog[l]
IsEvent(e) == l <= Len(TraceLog) /\ TraceLog[l].ev = e /\ l' = l + 1 /\ (e \notin {"Recovered", "Precommit"} => UNCHANGED bad)

TraceInit == StoreInit(FALSE, FALSE) /\ l = 1 /\ bad = <<>>

TReset ==
  /\ IsEvent("Reset")
  /\ synced' = Ev.synced /\ extAllow' = Ev.ext /\ log' = <<>> /\ committed' = 0 /\ allowed' = 0
  /\ cflushed' = 0 /\ cdurable' = 0 /\ hist' = <<>> /\ acked' = {} /\ cont' = <<>> /\ seen' = <<>> /\ everPre' = {} /\ cut' = 0 /\ open' = TRUE

\* a precommit whose embedded BlRoot is not the reference root over the earlier accumulated hashes breaks the
\* chain invariant of C02; it is collected (not a dead end) so that the rest of the execution is still examined
TPrecommit   == /\ IsEvent("Precommit") /\ Precommit(Ev.id, Ev.alh, Ev.prev, Ev.bl, TRUE, Ev.aht, Ev.maxActive)
                /\ bad' = IF Ev.blOk THEN bad
                          ELSE Append(bad, [k |-> Ev.id, mode |-> "live", line |-> l, verdict |-> [blroot |-> FALSE]])
TVLogsSynced == IsEvent("VLogsSynced") /\ VLogsSynced
TTxLogSynced == IsEvent("TxLogSynced") /\ TxLogSynced(Ev.upto)
TCLogFlushed == IsEvent("CLogFlushed") /\ CLogFlushed(Ev.from, Ev.to)
TCLogSynced  == IsEvent("CLogSynced") /\ CLogSynced(Ev.upto)
TCommitted   == IsEvent("Committed") /\ Committed(Ev.upto, Ev.alh)
TDiscard     == IsEvent("Discard") /\ Discard(Ev.since, Ev.n)
TAllow       == IsEvent("Allow") /\ Allow(Ev.upto)
TAck         == IsEvent("Ack") /\ Ack(Ev.id, Ev.alh, Ev.content)
TObserved    == IsEvent("Observed") /\ Observed(Ev.id, Ev.alh, Ev.chainOk, Ev.content, Ev.via)
TClose       == IsEvent("Closed") /\ Close
TOpened      == IsEvent("Opened") /\ Opened(Ev.c, Ev.reloaded)
\* the committed frontier reported by the public API (CommittedAlh) after a quiescent point
TState       == IsEvent("State") /\ Ev.committed = committed
                /\ Ev.alh = (IF committed = 0 THEN Genesis ELSE hist[committed]) /\ UNCHANGED vars

\* outcome of the real recovery of a crash image taken at this point of the execution (C03)
TRecovered   == /\ IsEvent("Recovered") /\ UNCHANGED vars
                /\ LET v == RecoveredVerdict(Ev) IN
                   bad' = IF VerdictOk(v) THEN bad ELSE Append(bad, [k |-> Ev.k, mode |-> Ev.mode, line |-> l, verdict |-> v])

TTruncated   == IsEvent("Truncated") /\ Truncated(Ev.n)
TAdopt       == IsEvent("Adopt") /\ Adopt(Ev.alhs, Ev.reloaded)

TraceNext == TRecovered \/ TTruncated \/ TAdopt \/ \/ TReset \/ TPrecommit \/ TVLogsSynced \/ TTxLogSynced \/ TCLogFlushed \/ TCLogSynced
             \/ TCommitted \/ TDiscard \/ TAllow \/ TAck \/ TObserved \/ TClose \/ TOpened \/ TState
TraceSpec == TraceInit /\ [][TraceNext]_tvars

\* every line was explained by an action of Store.tla (deterministic: one state per consumed line)
TraceAccepted ==
  LET d == TLCGet("stats").diameter IN
  IF d - 1 = Len(TraceLog) THEN TRUE
  ELSE Print(<<"TRACE-REJECTED-AT-LINE", d, IF d <= Len(TraceLog) THEN TraceLog[d] ELSE "eof">>, FALSE)
\* printed once, in the last state: the rejected crash images
ReportBad == (l = Len(TraceLog) + 1 /\ bad # <<>>) => PrintT(<<"JSON:", ToJson([bad |-> bad])>>)
=============================================================================
