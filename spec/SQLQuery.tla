------------------------------ MODULE SQLQuery ------------------------------
(***************************************************************************)
(* Property C11 - SQL query results do not depend on the physical plan.    *)
(*                                                                         *)
(* Enumeration module (no behaviours).  It contributes                     *)
(*   (a) abstract tables   t1(id PK, a INTEGER, b VARCHAR, c BOOLEAN)      *)
(*                         t2(id PK, x INTEGER, y VARCHAR)                 *)
(*       with at most 6 / 4 rows over small ordered domains incl. NULL,    *)
(*   (b) DML histories (multi-row INSERT, UPSERT, INSERT .. ON CONFLICT DO *)
(*       NOTHING, UPDATE of indexed columns, DELETE, delete + re-insert),  *)
(*       split into an auto-committed prefix and one multi-statement       *)
(*       transaction, with their meaning (Apply),                          *)
(*   (c) a query AST fragment (comparison, BETWEEN, IN list, LIKE prefix   *)
(*       class, IS [NOT] NULL, AND / OR / NOT, bare boolean column,        *)
(*       IN-subquery, ORDER BY asc/desc on 1-2 columns, LIMIT / OFFSET,    *)
(*       DISTINCT, GROUP BY + COUNT/SUM/MIN/MAX, HAVING, global            *)
(*       aggregates, INNER / LEFT JOIN) and its DENOTATION (Den),          *)
(*   (d) the schema variants (which secondary / composite / unique indexes *)
(*       exist, created before or after the data) - the denotation does    *)
(*       not take the schema as an input: that IS the property,            *)
(*   (e) the partition identity  Q = Q/\P (+) Q/\~P (+) Q/\(P IS NULL),    *)
(*       asserted here about the denotation for every sampled (history,    *)
(*       predicate) and emitted for the harness to re-check on real code.  *)
(* TLC evaluates everything, samples (schema, history, query) triples with *)
(* Seed and writes them as JSON.  harness/cmd/c11 renders every query in   *)
(* several physical forms, runs them on a real embedded/sql engine in      *)
(* three states and compares every answer with the denotation printed here.*)
(*                                                                         *)
(* SQL dialect modelled (what embedded/sql defines, uniformly for every    *)
(* plan; none of it is what C11 is about):                                 *)
(*   - comparison is TOTAL: NULL is the least value of every domain and    *)
(*     NULL = NULL holds (TypedValue.Compare).  Hence a comparison, IN,    *)
(*     LIKE, BETWEEN never evaluates to UNKNOWN; ORDER BY puts NULL first  *)
(*     ascending and last descending; a join on a = x pairs NULL with NULL;*)
(*     NULL LIKE p is false and NULL NOT LIKE p is true.                   *)
(*   - the only source of UNKNOWN is a nullable BOOLEAN column used as a   *)
(*     condition.  AND / OR / NOT follow Kleene's three-valued logic here; *)
(*     the engine refuses (error) when an operand of AND / OR / NOT is     *)
(*     UNKNOWN, so such cases are flagged "touchy": the harness accepts the*)
(*     refusal or the Kleene answer, nothing else.                         *)
(*   - aggregates skip NULLs; SUM/MIN/MAX of no value is NULL inside a     *)
(*     group; a global aggregate over an empty input yields one row whose  *)
(*     COUNT is 0 and whose other cells are engine-defined (ANY: plans     *)
(*     must agree with each other); GROUP BY over an empty input yields no *)
(*     row.                                                                *)
(* Every abstract value is an integer code; NULL == -9 is below all of     *)
(* them, so the integer order IS the dialect's SQL order.                  *)
(***************************************************************************)
EXTENDS Integers, Sequences, FiniteSets, TLC, Json, SequencesExt

CONSTANTS OutFile,      \* JSON file written by TLC
          Seed,         \* VERIF_SEED
          PerMut,       \* histories sampled per mutation sequence (quick 2; thorough: all base x split)
          SchemasPer,   \* schema variants per history
          QMod,         \* every QMod-th query is paired with a history (each query meets >= 1 history when #histories >= QMod)
          JMod,         \* same for the join queries
          Q3Mod,        \* same for the queries over t3
          PMod          \* same for the partition identity

NULL == -9
ANY  == -8
\* b / y / s / u codes: 0 = '', 1 = 'a', 2 = 'ab', 3 = 'b', 4 = 'bc', 5 = 'c' (bytewise order; 'a' is a prefix of 'ab';
\* 'ab' . 'c' = 'a' . 'bc': a key that merely concatenates two columns cannot tell these pairs apart); c codes: 0 = FALSE, 1 = TRUE
\* f (FLOAT) codes: 4 x value, i.e. 12 = 3.0, 13 = 3.25, 14 = 3.5, 15 = 3.75, 16 = 4.0; an INTEGER literal k stands for code 4k
HasPrefix == {<<0, 0>>, <<1, 0>>, <<2, 0>>, <<3, 0>>, <<1, 1>>, <<2, 1>>, <<2, 2>>, <<3, 3>>}   \* <<value, prefix>>

\* one row of the join space: t1 columns then t2 columns; a t1 row alone is padded with NULLs (= LEFT JOIN extension)
\* t3(id PK, f FLOAT, g INTEGER, n INTEGER, s VARCHAR, u VARCHAR) is queried on its own: a t3 row is <<id, f, g, n, s, u>>
Col(c) == CASE c = "id" -> 1 [] c = "a" -> 2 [] c = "b" -> 3 [] c = "c" -> 4 [] c = "id2" -> 5 [] c = "x" -> 6 [] c = "y" -> 7
            [] c = "f" -> 2 [] c = "g" -> 3 [] c = "n" -> 4 [] c = "s" -> 5 [] c = "u" -> 6
Pad1(r) == r \o <<NULL, NULL, NULL>>
Pad2(t) == <<NULL, NULL, NULL, NULL>> \o t

-----------------------------------------------------------------------------
(* Predicates.  Truth values "T", "F", "N".                                *)
B(x) == IF x THEN "T" ELSE "F"
CmpOp(op, l, r) == CASE op = "=" -> l = r [] op = "<>" -> l # r [] op = "<" -> l < r
                     [] op = "<=" -> l <= r [] op = ">" -> l > r [] op = ">=" -> l >= r
And3(l, r) == IF l = "F" \/ r = "F" THEN "F" ELSE IF l = "T" /\ r = "T" THEN "T" ELSE "N"
Or3(l, r)  == IF l = "T" \/ r = "T" THEN "T" ELSE IF l = "F" /\ r = "F" THEN "F" ELSE "N"
Not3(l)    == IF l = "T" THEN "F" ELSE IF l = "F" THEN "T" ELSE "N"

Cmp(c, op, v)      == [k |-> "cmp", col |-> c, op |-> op, v |-> v]
Between(c, lo, hi) == [k |-> "between", col |-> c, lo |-> lo, hi |-> hi]
\* the same on the FLOAT column with the constants written as INTEGER literals (ilit): same meaning, other literal type
CmpI(c, op, v)      == [k |-> "cmp", col |-> c, op |-> op, v |-> v, ilit |-> TRUE]
BetweenI(c, lo, hi) == [k |-> "between", col |-> c, lo |-> lo, hi |-> hi, ilit |-> TRUE]
InI(c, vs)          == [k |-> "in", col |-> c, vs |-> vs, neg |-> FALSE, ilit |-> TRUE]
In(c, vs)          == [k |-> "in", col |-> c, vs |-> vs, neg |-> FALSE]
NotIn(c, vs)       == [k |-> "in", col |-> c, vs |-> vs, neg |-> TRUE]
Like(c, p)         == [k |-> "like", col |-> c, pre |-> p, neg |-> FALSE]
NotLike(c, p)      == [k |-> "like", col |-> c, pre |-> p, neg |-> TRUE]
IsNull(c)          == [k |-> "isnull", col |-> c, neg |-> FALSE]
NotNull(c)         == [k |-> "isnull", col |-> c, neg |-> TRUE]
BoolCol(c)         == [k |-> "bool", col |-> c]
And(l, r)          == [k |-> "and", l |-> l, r |-> r]
Or(l, r)           == [k |-> "or", l |-> l, r |-> r]
Not(p)             == [k |-> "not", p |-> p]
PIsNull(p)         == [k |-> "pisnull", p |-> p]                    \* (p) IS NULL
InSub(c, sc, w)    == [k |-> "insub", col |-> c, scol |-> sc, w |-> w, neg |-> FALSE]   \* c IN (SELECT sc FROM t2 [WHERE w])
NotInSub(c, sc, w) == [k |-> "insub", col |-> c, scol |-> sc, w |-> w, neg |-> TRUE]

RECURSIVE Ev(_, _, _)
Ev(p, r, T2) ==
  CASE p.k = "cmp"     -> B(CmpOp(p.op, r[Col(p.col)], p.v))
    [] p.k = "between" -> B(r[Col(p.col)] >= p.lo /\ r[Col(p.col)] <= p.hi)
    [] p.k = "in"      -> B((\E i \in 1..Len(p.vs) : p.vs[i] = r[Col(p.col)]) # p.neg)
    [] p.k = "like"    -> B((r[Col(p.col)] # NULL /\ <<r[Col(p.col)], p.pre>> \in HasPrefix) # p.neg)
    [] p.k = "isnull"  -> B((r[Col(p.col)] = NULL) # p.neg)
    [] p.k = "bool"    -> IF r[Col(p.col)] = NULL THEN "N" ELSE B(r[Col(p.col)] = 1)
    [] p.k = "and"     -> And3(Ev(p.l, r, T2), Ev(p.r, r, T2))
    [] p.k = "or"      -> Or3(Ev(p.l, r, T2), Ev(p.r, r, T2))
    [] p.k = "not"     -> Not3(Ev(p.p, r, T2))
    [] p.k = "pisnull" -> B(Ev(p.p, r, T2) = "N")
    [] p.k = "insub"   -> B((\E t \in T2 : (Len(p.w) = 0 \/ Ev(p.w[1], Pad2(t), {}) = "T")
                                           /\ t[Col(p.scol) - 4] = r[Col(p.col)]) # p.neg)

\* TRUE iff evaluating p on r meets UNKNOWN as an operand of AND / OR / NOT (where the engine refuses to answer)
RECURSIVE Refuses(_, _, _)
Refuses(p, r, T2) ==
  CASE p.k = "and" -> Ev(p.l, r, T2) = "N" \/ Ev(p.r, r, T2) = "N" \/ Refuses(p.l, r, T2) \/ Refuses(p.r, r, T2)
    [] p.k = "or"  -> Ev(p.l, r, T2) = "N" \/ Ev(p.r, r, T2) = "N" \/ Refuses(p.l, r, T2) \/ Refuses(p.r, r, T2)
    [] p.k = "not" -> Ev(p.p, r, T2) = "N" \/ Refuses(p.p, r, T2)
    [] p.k = "pisnull" -> Refuses(p.p, r, T2)
    [] OTHER -> FALSE

Holds(w, r, T2) == Len(w) = 0 \/ Ev(w[1], r, T2) = "T"

-----------------------------------------------------------------------------
(* DML statements and their meaning on t1 (a set of rows <<id, a, b, c>>). *)
Ins(rows)      == [k |-> "ins", rows |-> rows]
Upsert(row)    == [k |-> "upsert", rows |-> <<row>>]
InsDN(row)     == [k |-> "insdn", rows |-> <<row>>]                  \* INSERT .. ON CONFLICT DO NOTHING
Upd(c, v, w)   == [k |-> "upd", col |-> c, v |-> v, w |-> <<w>>]     \* UPDATE t1 SET c = v WHERE w
Del(w)         == [k |-> "del", w |-> <<w>>]                         \* DELETE FROM t1 WHERE w

Ids(T) == {r[1] : r \in T}
Apply(T, s) ==
  CASE s.k = "ins"    -> T \cup {s.rows[i] : i \in 1..Len(s.rows)}
    [] s.k = "upsert" -> {r \in T : r[1] # s.rows[1][1]} \cup {s.rows[1]}
    [] s.k = "insdn"  -> IF s.rows[1][1] \in Ids(T) THEN T ELSE T \cup {s.rows[1]}
    [] s.k = "upd"    -> {IF Holds(s.w, Pad1(r), {}) THEN [r EXCEPT ![Col(s.col)] = s.v] ELSE r : r \in T}
    [] s.k = "del"    -> {r \in T : ~Holds(s.w, Pad1(r), {})}
\* rows present before s that s removes or changes (their old index entries must disappear)
Removed(T, s) == T \ Apply(T, s)
\* the engine refuses an INSERT of an existing primary key: such histories are not in the space
StmtOK(T, s) == s.k = "ins" => (\A i \in 1..Len(s.rows) : s.rows[i][1] \notin Ids(T))
                               /\ (\A i, j \in 1..Len(s.rows) : i # j => s.rows[i][1] # s.rows[j][1])

RECURSIVE StateAt(_, _)
StateAt(stmts, n) == IF n = 0 THEN {} ELSE Apply(StateAt(stmts, n - 1), stmts[n])
HistOK(stmts) == \A n \in 1..Len(stmts) : StmtOK(StateAt(stmts, n - 1), stmts[n])
\* a UNIQUE index on b accepts the history (NULL counts as a value for the engine's unique indexes)
UniqueB(T) == \A r, s \in T : r # s => r[3] # s[3]
HistUniqueOK(stmts) == \A n \in 0..Len(stmts) : UniqueB(StateAt(stmts, n))

Bases == <<
  << <<1, 1, 2, 1>>, <<2, NULL, 3, NULL>>, <<3, 2, NULL, 0>>, <<4, 1, 1, NULL>> >>,      \* duplicates in a, NULL in every column
  << <<1, 3, 3, 0>>, <<2, 2, 2, 1>>, <<3, -1, 1, 1>> >>,                                 \* a descending in id, negative a, no NULL
  << <<1, NULL, NULL, NULL>>, <<2, NULL, 1, 1>> >>,                                      \* mostly NULL
  << >>,                                                                                 \* empty table
  << <<1, 2, 0, 0>>, <<2, 2, 1, 0>>, <<3, 2, 2, 1>>, <<4, 2, 3, 1>> >> >>                \* constant a, every b incl. '', no NULL

Muts == <<
  << >>,
  << Upd("a", 3, Cmp("id", "=", 1)) >>,                                    \* indexed column, by primary key
  << Upd("a", NULL, Cmp("a", "=", 1)) >>,                                  \* indexed column, found through itself, to NULL, several rows
  << Upd("b", 3, Cmp("id", "=", 1)) >>,
  << Del(Cmp("id", "=", 2)) >>,
  << Del(Cmp("a", "=", 1)) >>,
  << Upsert(<<2, 3, 1, 1>>) >>,                                            \* overwrites a row (inserts into the empty base)
  << Upsert(<<5, 1, 0, 0>>) >>,                                            \* new row
  << InsDN(<<1, 3, 3, 0>>) >>,                                             \* conflict: nothing happens (inserts into the empty base)
  << Ins(<< <<5, NULL, 2, 1>> >>) >>,
  << Del(Cmp("id", "=", 2)), Ins(<< <<2, 2, 0, 1>> >>) >>,                 \* delete + re-insert of the same primary key
  << Upd("a", 3, Cmp("id", "=", 1)), Upd("a", 1, Cmp("id", "=", 1)) >>,    \* value leaves and comes back
  << Upd("a", 2, Cmp("id", "=", 2)), Del(Cmp("id", "=", 1)) >>,
  << Upsert(<<2, 3, 1, 1>>), Upsert(<<2, NULL, 3, NULL>>) >>,
  << Del(IsNull("b")), Upd("c", 1, IsNull("c")) >>,
  << Ins(<< <<5, 1, 1, 0>> >>), Upd("a", 2, Cmp("id", "=", 5)) >>,         \* update of a row inserted just before
  << Del(Cmp("id", ">=", 1)) >>,                                           \* everything deleted
  << Upd("a", 2, Cmp("a", ">=", 1)), Upd("b", NULL, Cmp("b", ">=", 2)) >>, \* several rows collapse to one key
  << Ins(<< <<5, 3, 3, 1>>, <<6, -1, NULL, NULL>> >>), Del(Cmp("b", "=", 3)) >> >>

\* split = number of leading statements that are auto-committed one by one; the rest is ONE transaction
\*   "auto": all of them     "tx": the base insert is committed, the mutations are one transaction
\*   "alltx": base insert and mutations are one transaction
HistStmts(b, m) == (IF Len(Bases[b]) = 0 THEN <<>> ELSE <<Ins(Bases[b])>>) \o Muts[m]
SplitOf(b, m, sp) == LET n == Len(HistStmts(b, m))
                         nb == IF Len(Bases[b]) = 0 THEN 0 ELSE 1
                     IN CASE sp = 1 -> n [] sp = 2 -> nb [] sp = 3 -> 0
T2s == << {<<1, 1, 1>>, <<2, NULL, 3>>, <<3, 3, NULL>>, <<4, 1, 2>>},     \* x: duplicate 1, NULL, 3 ; y: a, b, NULL, ab
          {},
          {<<1, 2, 0>>, <<2, 2, 2>>} >>

\* t3 rows <<id, f, g, n, s, u>>
T3s == <<
  \* f: four values in [3, 4) whose g are not in f's order, one at 4, one below 3; (g, n): (NULL, 5) vs (5, NULL), (5, 0) vs (5, NULL);
  \* (s, u): ('ab','c') twice, ('a','bc'), (NULL, '') vs ('', NULL), (NULL, NULL), ('', '')
  {<<1, 12, 9, NULL, 2, 5>>, <<2, 13, 1, 5, 1, 4>>, <<3, 14, 5, 0, NULL, 0>>, <<4, 16, 2, NULL, 0, NULL>>, <<5, 15, 5, NULL, 2, 5>>,
   <<6, 10, NULL, 5, NULL, NULL>>, <<7, 13, 1, 5, 0, 0>>},
  \* the group g = 1 is split by g = 2 in the order of f; duplicates of f
  {<<1, 12, 3, 1, 1, 1>>, <<2, 13, 1, 0, 3, 1>>, <<3, 14, 2, NULL, 1, 3>>, <<4, 15, 1, NULL, 3, 1>>, <<5, 16, 1, 1, 1, 1>>,
   <<6, 8, 2, 0, NULL, 1>>, <<7, 14, 0, NULL, 1, NULL>>},
  \* NULL in f
  {<<1, NULL, 1, 1, 2, 2>>, <<2, 12, 2, NULL, 2, NULL>>, <<3, 14, 1, 1, NULL, 2>>, <<4, NULL, 2, 0, 5, 0>>} >>

AllBaseSplit == [i \in 1..(Len(Bases) * 3) |-> <<((i - 1) \div 3) + 1, ((i - 1) % 3) + 1>>]
\* histories chosen for this run: for every mutation sequence, PerMut (base, split) pairs
PickBS(m, j) == AllBaseSplit[((m * 7 + j * 4 + Seed * 11) % Len(AllBaseSplit)) + 1]
HistKeys == LET raw == {<<m, PickBS(m, j)[1], PickBS(m, j)[2]>> : m \in 1..Len(Muts), j \in 1..PerMut}
            IN SetToSortSeq({k \in raw : HistOK(HistStmts(k[2], k[1]))
                                         \* an empty transaction is the same history as "auto"
                                         /\ (k[3] = 1 \/ SplitOf(k[2], k[1], k[3]) < Len(HistStmts(k[2], k[1])))},
                            LAMBDA u, v : u[1] < v[1] \/ (u[1] = v[1] /\ (u[2] < v[2] \/ (u[2] = v[2] /\ u[3] < v[3]))))
NH == Len(HistKeys)

-----------------------------------------------------------------------------
(* Schema variants.  idx = <<columns, unique, late>>; "late" indexes are   *)
(* created after the committed data exists (after the auto-committed       *)
(* prefix, or after COMMIT when there is no prefix).                       *)
Ix(cols, u, late) == [cols |-> cols, unique |-> u, late |-> late]
Schemas == <<
  [name |-> "pk-only",      t1 |-> <<>>, t2 |-> <<>>, t3 |-> <<>>],
  [name |-> "a,b",          t1 |-> <<Ix(<<"a">>, FALSE, FALSE), Ix(<<"b">>, FALSE, FALSE)>>, t2 |-> <<Ix(<<"x">>, FALSE, FALSE)>>,
                            t3 |-> <<Ix(<<"f", "g">>, FALSE, FALSE), Ix(<<"s", "u">>, FALSE, FALSE)>>],
  [name |-> "a,b late",     t1 |-> <<Ix(<<"a">>, FALSE, TRUE), Ix(<<"b">>, FALSE, TRUE)>>, t2 |-> <<Ix(<<"x">>, FALSE, TRUE)>>,
                            t3 |-> <<Ix(<<"f", "g">>, FALSE, TRUE), Ix(<<"g", "n">>, FALSE, TRUE)>>],
  [name |-> "(a,b)",        t1 |-> <<Ix(<<"a", "b">>, FALSE, FALSE)>>, t2 |-> <<Ix(<<"x", "y">>, FALSE, FALSE)>>,
                            t3 |-> <<Ix(<<"f", "g">>, FALSE, FALSE), Ix(<<"g", "n">>, FALSE, FALSE)>>],
  [name |-> "(a,b) late,(c,a)", t1 |-> <<Ix(<<"a", "b">>, FALSE, TRUE), Ix(<<"c", "a">>, FALSE, FALSE)>>, t2 |-> <<>>,
                            t3 |-> <<Ix(<<"s", "g">>, FALSE, FALSE), Ix(<<"n", "g">>, FALSE, FALSE)>>],
  [name |-> "unique b,a late", t1 |-> <<Ix(<<"b">>, TRUE, FALSE), Ix(<<"a">>, FALSE, TRUE)>>, t2 |-> <<Ix(<<"y">>, FALSE, FALSE)>>,
                            t3 |-> <<Ix(<<"f">>, FALSE, FALSE), Ix(<<"g", "n">>, FALSE, FALSE), Ix(<<"u", "s">>, FALSE, FALSE)>>],
  [name |-> "a,(a,b),(b,a),c", t1 |-> <<Ix(<<"a">>, FALSE, FALSE), Ix(<<"a", "b">>, FALSE, FALSE), Ix(<<"b", "a">>, FALSE, FALSE),
                                       Ix(<<"c">>, FALSE, FALSE)>>, t2 |-> <<Ix(<<"x">>, FALSE, FALSE), Ix(<<"y", "x">>, FALSE, FALSE)>>,
                            t3 |-> <<Ix(<<"f", "g">>, FALSE, FALSE), Ix(<<"s", "u">>, FALSE, FALSE), Ix(<<"g", "n">>, FALSE, FALSE),
                                     Ix(<<"n", "g">>, FALSE, FALSE)>>],
  [name |-> "(b,a) late,c late", t1 |-> <<Ix(<<"b", "a">>, FALSE, TRUE), Ix(<<"c">>, FALSE, TRUE)>>, t2 |-> <<Ix(<<"x">>, FALSE, TRUE)>>,
                            t3 |-> <<Ix(<<"s", "u">>, FALSE, TRUE), Ix(<<"f", "g">>, FALSE, TRUE)>>] >>
HasUnique(s) == \E i \in 1..Len(Schemas[s].t1) : Schemas[s].t1[i].unique
SchemasFor(j, stmts) ==
  LET n == Len(Schemas)
      want == {((j * 3 + i * 5 + Seed) % n) + 1 : i \in 0..(SchemasPer - 1)}
      ok == {s \in want : HasUnique(s) => HistUniqueOK(stmts)}
  IN IF ok = {} THEN {1} ELSE ok

-----------------------------------------------------------------------------
(* Queries.                                                                *)
\* predicates over t1 (single-table queries), every operator of the fragment
Preds == <<
  Cmp("a", "=", 1), Cmp("a", "<>", 1), Cmp("a", "<", 1), Cmp("a", "<=", 1), Cmp("a", ">", 1), Cmp("a", ">=", 1),
  Cmp("a", "=", 2), Cmp("a", "<>", 2), Cmp("a", "<", 2), Cmp("a", "<=", 2), Cmp("a", ">", 2), Cmp("a", ">=", 2),
  Cmp("b", "=", 2), Cmp("b", "<>", 2), Cmp("b", "<", 2), Cmp("b", "<=", 2), Cmp("b", ">", 2), Cmp("b", ">=", 2),
  Cmp("c", "=", 1), Cmp("c", "<>", 0), Cmp("c", "=", NULL), Cmp("id", ">=", 2), Cmp("id", "=", 3),
  Cmp("a", "=", NULL), Cmp("a", "<>", NULL), Cmp("a", ">", NULL), Cmp("a", "<=", NULL),
  Cmp("a", "=", 3), Cmp("a", "=", -1), Cmp("a", "<", -1), Cmp("b", "=", 0), Cmp("b", ">", 0),
  Between("a", 1, 2), Between("b", 1, 2), Between("a", 2, 1), Between("id", 2, 3),
  And(Cmp("a", ">=", 1), Cmp("a", "<", 3)), And(Cmp("a", ">", 1), Cmp("a", "<=", 3)), And(Cmp("b", ">", 0), Cmp("b", "<", 3)),
  In("a", <<1, 3>>), In("a", <<2, NULL>>), NotIn("a", <<1>>), In("b", <<1, 3>>), NotIn("b", <<2, NULL>>), In("id", <<1, 4>>),
  Like("b", 1), Like("b", 2), Like("b", 3), Like("b", 0), NotLike("b", 1),
  IsNull("a"), NotNull("a"), IsNull("b"), NotNull("b"), IsNull("c"), NotNull("c"),
  And(Cmp("a", "=", 1), Cmp("b", "=", 2)), And(Cmp("a", "=", 1), Cmp("b", ">=", 1)), Or(Cmp("a", "=", 1), Cmp("b", "=", 3)),
  Not(Cmp("a", "=", 1)), And(Cmp("a", "=", 1), Or(Cmp("b", "<", 3), Cmp("c", "=", 1))),
  Not(Or(Cmp("a", "<", 2), IsNull("b"))), And(Cmp("a", "=", 2), IsNull("b")),
  And(Or(Cmp("a", "=", 1), Cmp("a", "=", 2)), Cmp("c", "=", 0)), And(Cmp("a", ">=", 1), Like("b", 1)),
  And(Cmp("c", "=", 1), Cmp("a", ">", 0)), And(Cmp("a", "<", 2), Cmp("a", ">", 2)), And(Cmp("a", "=", 1), Cmp("a", "=", 2)),
  Or(Cmp("a", ">", 1), Cmp("a", "<", 0)), And(Cmp("b", "=", 1), Cmp("a", ">=", 1)), Or(IsNull("a"), Cmp("a", ">=", 2)),
  BoolCol("c"), Not(BoolCol("c")), And(BoolCol("c"), Cmp("a", "=", 1)), Or(Cmp("a", "=", 1), BoolCol("c")), Or(BoolCol("c"), IsNull("b")),
  InSub("a", "x", <<>>), NotInSub("a", "x", <<>>), InSub("a", "x", <<Cmp("y", "=", 1)>>),
  InSub("b", "y", <<NotNull("x")>>), And(Cmp("a", "=", 1), InSub("a", "x", <<>>)) >>

\* shapes of single-table queries; ORDER BY / DISTINCT columns are always part of the projection
Ord(c, desc) == <<c, desc, "">>            \* NULL placement of the dialect: first ascending, last descending
OrdN(c, desc, nulls) == <<c, desc, nulls>>  \* explicit NULLS FIRST ("first") / NULLS LAST ("last")
Rows(proj, distinct, order, limit, offset) ==
  [kind |-> "rows", proj |-> proj, distinct |-> distinct, order |-> order, limit |-> limit, offset |-> offset]
Agg(fn, c) == <<fn, c>>
Group(by, aggs, order, having) == [kind |-> "group", by |-> by, aggs |-> aggs, order |-> order, having |-> having]
Full == <<"id", "a", "b", "c">>
Shapes == <<
  Rows(Full, FALSE, <<>>, -1, -1),
  Rows(Full, FALSE, <<Ord("a", FALSE)>>, -1, -1), Rows(Full, FALSE, <<Ord("a", TRUE)>>, -1, -1),
  Rows(Full, FALSE, <<Ord("b", FALSE)>>, -1, -1), Rows(Full, FALSE, <<Ord("b", TRUE)>>, -1, -1),
  Rows(Full, FALSE, <<Ord("a", FALSE), Ord("b", FALSE)>>, -1, -1), Rows(Full, FALSE, <<Ord("a", TRUE), Ord("b", TRUE)>>, -1, -1),
  Rows(Full, FALSE, <<Ord("a", FALSE), Ord("b", TRUE)>>, -1, -1), Rows(Full, FALSE, <<Ord("b", FALSE), Ord("a", FALSE)>>, -1, -1),
  Rows(Full, FALSE, <<Ord("c", FALSE), Ord("a", FALSE)>>, -1, -1), Rows(Full, FALSE, <<Ord("id", TRUE)>>, -1, -1),
  Rows(Full, FALSE, <<Ord("c", TRUE)>>, -1, -1),
  Rows(Full, FALSE, <<Ord("a", FALSE)>>, 2, -1), Rows(Full, FALSE, <<Ord("a", TRUE)>>, 1, 1),
  Rows(Full, FALSE, <<Ord("b", FALSE), Ord("a", FALSE)>>, 2, 2), Rows(Full, FALSE, <<>>, 2, -1),
  Rows(Full, FALSE, <<Ord("id", FALSE)>>, -1, 1), Rows(Full, FALSE, <<Ord("a", FALSE), Ord("b", FALSE)>>, 3, -1),
  Rows(<<"a">>, FALSE, <<Ord("a", FALSE)>>, -1, -1), Rows(<<"b", "id">>, FALSE, <<>>, -1, -1),
  Rows(<<"a">>, TRUE, <<>>, -1, -1), Rows(<<"b">>, TRUE, <<Ord("b", FALSE)>>, -1, -1), Rows(<<"a", "c">>, TRUE, <<>>, -1, -1),
  Rows(<<"c">>, TRUE, <<Ord("c", TRUE)>>, -1, -1), Rows(<<"a">>, TRUE, <<Ord("a", TRUE)>>, 2, -1),
  Group(<<"a">>, <<Agg("COUNT", "*"), Agg("SUM", "id"), Agg("MIN", "b"), Agg("MAX", "b")>>, 0, FALSE),
  Group(<<"b">>, <<Agg("COUNT", "*"), Agg("COUNT", "a"), Agg("SUM", "a"), Agg("MIN", "a"), Agg("MAX", "a")>>, 1, FALSE),
  Group(<<"c">>, <<Agg("COUNT", "*"), Agg("SUM", "a"), Agg("MAX", "b")>>, 0, FALSE),
  Group(<<"a">>, <<Agg("COUNT", "*")>>, 0, TRUE),
  Group(<<"a">>, <<Agg("COUNT", "c"), Agg("MIN", "id")>>, 2, FALSE),
  Group(<<>>, <<Agg("COUNT", "*")>>, 0, FALSE),
  Group(<<>>, <<Agg("COUNT", "a"), Agg("SUM", "a"), Agg("MIN", "a"), Agg("MAX", "a")>>, 0, FALSE),
  Group(<<>>, <<Agg("MIN", "b"), Agg("MAX", "b"), Agg("COUNT", "b")>>, 0, FALSE),
  Group(<<>>, <<Agg("COUNT", "*"), Agg("SUM", "id")>>, 0, FALSE),
  Rows(Full, FALSE, <<OrdN("a", FALSE, "last")>>, -1, -1), Rows(Full, FALSE, <<OrdN("a", TRUE, "first")>>, -1, -1),
  Rows(Full, FALSE, <<OrdN("b", FALSE, "last"), Ord("a", FALSE)>>, 2, -1), Rows(Full, FALSE, <<OrdN("a", FALSE, "first")>>, -1, -1),
  Group(<<"a", "c">>, <<Agg("COUNT", "*"), Agg("SUM", "id")>>, 0, FALSE),
  Group(<<"b", "a">>, <<Agg("COUNT", "*"), Agg("MAX", "id")>>, 1, FALSE) >>

\* join queries: t1 [INNER | LEFT] JOIN t2 ON <equalities>, WHERE over the joined row
JoinWheres == << <<>>, <<Cmp("y", "=", 1)>>, <<Cmp("c", "=", 1)>>, <<IsNull("x")>>,
                 <<And(Cmp("a", ">=", 1), Cmp("y", "<>", 3))>>, <<In("id", <<1, 2>>)>>, <<And(Cmp("y", ">=", 1), Cmp("id2", "<", 4))>> >>
JoinShapes == <<
  Rows(<<"id", "a", "id2", "x", "y">>, FALSE, <<>>, -1, -1),
  Rows(<<"id", "a", "id2", "x", "y">>, FALSE, <<Ord("a", TRUE)>>, -1, -1),
  Group(<<"a">>, <<Agg("COUNT", "*"), Agg("MAX", "y")>>, 0, FALSE),
  Group(<<>>, <<Agg("COUNT", "*")>>, 0, FALSE),
  \* ORDER BY columns of the INNER table (t2.id has the name of t1's primary key)
  Rows(<<"id", "a", "id2", "x", "y">>, FALSE, <<Ord("id2", FALSE)>>, -1, -1),
  Rows(<<"id", "a", "id2", "x", "y">>, FALSE, <<Ord("id2", TRUE)>>, -1, -1),
  Rows(<<"id", "a", "id2", "x", "y">>, FALSE, <<Ord("a", FALSE), Ord("id2", TRUE)>>, -1, -1),
  Rows(<<"id", "a", "id2", "x", "y">>, FALSE, <<Ord("y", FALSE)>>, 3, -1) >>
\* ON conjuncts <<t1 column, operator, t2 column>>; the last two are an equality plus a conjunct that is not an equality and
\* involves the outer row (a hash join must evaluate it per outer row)
JoinOns == << <<<<"a", "=", "x">>>>, <<<<"b", "=", "y">>>>, <<<<"a", "=", "x">>, <<"b", "=", "y">>>>,
              <<<<"a", "=", "x">>, <<"id", "<", "id2">>>>, <<<<"b", "=", "y">>, <<"a", ">=", "x">>>> >>

\* queries over t3: ranges on the FLOAT column written with INTEGER or FLOAT literals (a half-open range between consecutive
\* integers holds several FLOAT values: the order of g inside it is not the order of the index (f, g)), equalities, BETWEEN,
\* IN, crossed with ORDER BY / DISTINCT / GROUP BY on the following index column; GROUP BY over two nullable columns of
\* one type (NULLs swapped between the columns, NULL vs 0, NULL vs '', ('ab','c') vs ('a','bc'))
Preds3 == <<
  And(CmpI("f", ">=", 12), CmpI("f", "<", 16)), And(CmpI("f", ">", 12), CmpI("f", "<=", 16)),
  And(CmpI("f", ">=", 12), CmpI("f", "<=", 16)), And(CmpI("f", ">", 12), CmpI("f", "<", 16)),
  And(CmpI("f", ">=", 12), CmpI("f", "<=", 12)), And(CmpI("f", ">=", 8), CmpI("f", "<", 12)),
  CmpI("f", "=", 12), CmpI("f", "=", 16), BetweenI("f", 12, 16), InI("f", <<12, 16>>), BetweenI("f", 12, 12),
  And(Cmp("f", ">=", 12), Cmp("f", "<", 16)), And(Cmp("f", ">", 12), Cmp("f", "<=", 14)),
  Cmp("f", "=", 13), And(Cmp("f", ">=", 13), Cmp("f", "<=", 13)), Between("f", 13, 15), In("f", <<13, 15>>),
  And(CmpI("f", ">=", 12), Cmp("f", "<", 14)), And(Cmp("f", ">", 13), CmpI("f", "<=", 16)),
  And(Cmp("s", ">=", 1), Cmp("s", "<", 3)), Cmp("s", "=", 2), And(Cmp("s", ">=", 2), Cmp("s", "<=", 2)), IsNull("s"), Cmp("s", "=", 0),
  And(Cmp("g", ">=", 1), Cmp("g", "<", 2)), Cmp("g", "=", 5), Cmp("n", "=", 5), IsNull("n"), Cmp("n", "=", 0),
  And(Cmp("g", "=", 5), IsNull("n")), And(Cmp("n", "=", 5), Cmp("g", ">=", 1)) >>
P3 == <<"id", "f", "g", "n">>
PS == <<"id", "s", "u", "g">>
Shapes3 == <<
  Rows(P3, FALSE, <<>>, -1, -1), Rows(P3, FALSE, <<Ord("g", FALSE)>>, -1, -1), Rows(P3, FALSE, <<Ord("g", TRUE)>>, -1, -1),
  Rows(P3, FALSE, <<Ord("g", FALSE)>>, 2, -1), Rows(P3, FALSE, <<Ord("g", TRUE)>>, 1, 1),
  Rows(P3, FALSE, <<Ord("f", FALSE), Ord("g", FALSE)>>, -1, -1), Rows(P3, FALSE, <<Ord("f", TRUE), Ord("g", TRUE)>>, -1, -1),
  Rows(P3, FALSE, <<Ord("n", FALSE), Ord("g", FALSE)>>, -1, -1), Rows(P3, FALSE, <<OrdN("g", FALSE, "last")>>, -1, -1),
  Rows(P3, FALSE, <<OrdN("f", TRUE, "first")>>, -1, -1),
  Rows(PS, FALSE, <<Ord("u", FALSE)>>, -1, -1), Rows(PS, FALSE, <<Ord("s", FALSE), Ord("u", FALSE)>>, -1, -1),
  Rows(PS, FALSE, <<Ord("g", FALSE)>>, -1, -1),
  Rows(<<"g">>, TRUE, <<>>, -1, -1), Rows(<<"g">>, TRUE, <<Ord("g", FALSE)>>, -1, -1), Rows(<<"g">>, TRUE, <<Ord("g", TRUE)>>, 2, -1),
  Rows(<<"s", "u">>, TRUE, <<>>, -1, -1), Rows(<<"g", "n">>, TRUE, <<>>, -1, -1), Rows(<<"u", "s">>, TRUE, <<Ord("u", FALSE)>>, -1, -1),
  Group(<<"g">>, <<Agg("COUNT", "*"), Agg("MIN", "id"), Agg("MAX", "id"), Agg("SUM", "id")>>, 0, FALSE),
  Group(<<"g">>, <<Agg("COUNT", "*"), Agg("SUM", "id")>>, 1, FALSE), Group(<<"g">>, <<Agg("COUNT", "*")>>, 2, FALSE),
  Group(<<"g", "n">>, <<Agg("COUNT", "*"), Agg("SUM", "id"), Agg("MIN", "id")>>, 0, FALSE),
  Group(<<"n", "g">>, <<Agg("COUNT", "*"), Agg("MAX", "id")>>, 1, FALSE),
  Group(<<"s", "u">>, <<Agg("COUNT", "*"), Agg("MAX", "id"), Agg("MIN", "g"), Agg("SUM", "g")>>, 0, FALSE),
  Group(<<"u", "s">>, <<Agg("COUNT", "*"), Agg("COUNT", "n")>>, 0, FALSE),
  Group(<<"s", "u">>, <<Agg("COUNT", "*")>>, 0, TRUE),
  Group(<<"s">>, <<Agg("COUNT", "*"), Agg("MAX", "u")>>, 0, FALSE), Group(<<"u">>, <<Agg("COUNT", "*"), Agg("MIN", "s")>>, 1, FALSE),
  Group(<<>>, <<Agg("COUNT", "*")>>, 0, FALSE), Group(<<>>, <<Agg("MIN", "f"), Agg("MAX", "f"), Agg("COUNT", "f"), Agg("SUM", "g")>>, 0, FALSE) >>

NP == Len(Preds)
NS == Len(Shapes)
NSingle == (NP + 1) * NS
NJoin == 2 * Len(JoinOns) * Len(JoinWheres) * Len(JoinShapes)
NP3 == Len(Preds3)
NS3 == Len(Shapes3)
NT3 == (NP3 + 1) * NS3
NQ == NSingle + NJoin + NT3
\* query number q (1..NQ) -> AST
QueryAt(q) ==
  IF q <= NSingle
  THEN LET pi == (q - 1) \div NS      \* 0 = no WHERE
           si == ((q - 1) % NS) + 1
       IN [tbl |-> "t1", join |-> <<>>, where |-> IF pi = 0 THEN <<>> ELSE <<Preds[pi]>>, shape |-> Shapes[si], pi |-> pi, si |-> si]
  ELSE IF q > NSingle + NJoin
  THEN LET z == q - NSingle - NJoin - 1
           pi == z \div NS3
           si == (z % NS3) + 1
       IN [tbl |-> "t3", join |-> <<>>, where |-> IF pi = 0 THEN <<>> ELSE <<Preds3[pi]>>, shape |-> Shapes3[si], pi |-> pi, si |-> si]
  ELSE LET z == q - NSingle - 1
           si == (z % Len(JoinShapes)) + 1
           wi == ((z \div Len(JoinShapes)) % Len(JoinWheres)) + 1
           oi == ((z \div (Len(JoinShapes) * Len(JoinWheres))) % Len(JoinOns)) + 1
           ji == (z \div (Len(JoinShapes) * Len(JoinWheres) * Len(JoinOns))) + 1
       IN [tbl |-> "t1", join |-> <<[type |-> IF ji = 1 THEN "inner" ELSE "left", on |-> JoinOns[oi]]>>, where |-> JoinWheres[wi],
           shape |-> JoinShapes[si], pi |-> 0 - wi, si |-> 0 - si]

-----------------------------------------------------------------------------
(* Denotation.                                                             *)
RECURSIVE LexLess(_, _, _)
\* strict order of two tuples under sort keys <<position, desc, nulls>>..., then (to make SortSeq deterministic) by the whole tuple
TupLess(u, v) == \E i \in 1..Len(u) : u[i] < v[i] /\ \A j \in 1..(i - 1) : u[j] = v[j]
LexLess(keys, u, v) ==
  IF Len(keys) = 0 THEN FALSE
  ELSE LET p == keys[1][1] d == keys[1][2] nl == keys[1][3]
       IN IF u[p] = v[p] THEN LexLess(Tail(keys), u, v)
          ELSE IF nl # "" /\ u[p] = NULL THEN nl = "first"
          ELSE IF nl # "" /\ v[p] = NULL THEN nl = "last"
          ELSE IF d THEN u[p] > v[p] ELSE u[p] < v[p]
KeyEq(keys, u, v) == \A i \in 1..Len(keys) : u[keys[i][1]] = v[keys[i][1]]
SortBy(keys, s) == SortSeq(s, LAMBDA u, v : LexLess(keys, u, v) \/ (KeyEq(keys, u, v) /\ TupLess(u, v)))

PosIn(proj, c) == CHOOSE i \in 1..Len(proj) : proj[i] = c
Proj(r, proj) == [i \in 1..Len(proj) |-> r[Col(proj[i])]]

\* the joined / padded source rows
Source(q, T1, T2) ==
  IF Len(q.join) = 0 THEN {Pad1(r) : r \in T1}
  ELSE LET on == q.join[1].on
           match(l, t) == \A i \in 1..Len(on) : CmpOp(on[i][2], l[Col(on[i][1])], t[Col(on[i][3]) - 4])
           pairs == {lt \in {<<l, t>> : l \in T1, t \in T2} : match(lt[1], lt[2])}
       IN {lt[1] \o lt[2] : lt \in pairs}
          \cup (IF q.join[1].type = "left" THEN {Pad1(l) : l \in {m \in T1 : ~\E t \in T2 : match(m, t)}} ELSE {})

SumSeq(s) == FoldLeft(LAMBDA acc, x : acc + x, 0, s)
AggVal(fn, c, rows) ==          \* rows: a set of source rows (distinct)
  LET vals == IF c = "*" THEN <<>> ELSE LET s == SetToSeq(rows) IN SelectSeq([i \in 1..Len(s) |-> s[i][Col(c)]], LAMBDA v : v # NULL)
  IN CASE fn = "COUNT" -> IF c = "*" THEN Cardinality(rows) ELSE Len(vals)
       [] fn = "SUM"   -> IF Len(vals) = 0 THEN NULL ELSE SumSeq(vals)
       [] fn = "MIN"   -> IF Len(vals) = 0 THEN NULL ELSE CHOOSE v \in Range(vals) : \A w \in Range(vals) : v <= w
       [] fn = "MAX"   -> IF Len(vals) = 0 THEN NULL ELSE CHOOSE v \in Range(vals) : \A w \in Range(vals) : v >= w

\* full result before OFFSET / LIMIT, as a sequence: sorted by the ORDER BY keys when there are any
\* (ties in an arbitrary order: the harness compares ties as bags), in an arbitrary order otherwise
Den(q, T1, T2) ==
  LET sel == {r \in Source(q, T1, T2) : Holds(q.where, r, T2)}
      sh == q.shape
  IN IF sh.kind = "rows"
     THEN LET keys == [i \in 1..Len(sh.order) |-> <<PosIn(sh.proj, sh.order[i][1]), sh.order[i][2], sh.order[i][3]>>]
              all == LET s == SetToSeq(sel) IN [i \in 1..Len(s) |-> Proj(s[i], sh.proj)]
              bag == IF sh.distinct THEN SetToSeq(Range(all)) ELSE all
          IN SortBy(keys, bag)
     ELSE IF Len(sh.by) = 0
          THEN IF sel = {} THEN << [i \in 1..Len(sh.aggs) |-> IF sh.aggs[i][1] = "COUNT" THEN 0 ELSE ANY] >>
               ELSE << [i \in 1..Len(sh.aggs) |-> AggVal(sh.aggs[i][1], sh.aggs[i][2], sel)] >>
          ELSE LET \* one row per distinct tuple of the GROUP BY columns (NULL is a value of its own in every column)
                   gkey(r) == [i \in 1..Len(sh.by) |-> r[Col(sh.by[i])]]
                   gvals == {gkey(r) : r \in sel}
                   grp(g) == {r \in sel : gkey(r) = g}
                   keep == IF sh.having THEN {g \in gvals : Cardinality(grp(g)) > 1} ELSE gvals
                   rowsOf == {g \o [i \in 1..Len(sh.aggs) |-> AggVal(sh.aggs[i][1], sh.aggs[i][2], grp(g))] : g \in keep}
               \* ORDER BY (when present) is on the first GROUP BY column
               IN SortBy(IF sh.order = 0 THEN <<>> ELSE <<<<1, sh.order = 2, "">>>>, SetToSeq(rowsOf))

Touchy(q, T1, T2) == Len(q.where) > 0 /\ \E r \in Source(q, T1, T2) : Refuses(q.where[1], r, T2)

-----------------------------------------------------------------------------
(* Everything that is written out.  Big tables are parked in TLC registers *)
(* (zero-arity definitions are not reliably memoised).                     *)
HistOutDef ==
  [j \in 1..NH |->
    LET k == HistKeys[j]
        stmts == HistStmts(k[2], k[1])
        split == SplitOf(k[2], k[1], k[3])
        t2 == IF (j + Seed) % 6 = 0 THEN 2 ELSE IF (j + Seed) % 6 = 3 THEN 3 ELSE 1
        t3 == IF (j + Seed) % 5 = 4 THEN 3 ELSE IF (j + Seed) % 5 >= 2 THEN 2 ELSE 1
    IN [t3 |-> t3, t3rows |-> SetToSortSeq(T3s[t3], TupLess), id |-> j, mut |-> k[1], base |-> k[2], splitKind |-> k[3], stmts |-> stmts, split |-> split, t2 |-> t2,
        t2rows |-> SetToSortSeq(T2s[t2], TupLess),
        final |-> SetToSortSeq(StateAt(stmts, Len(stmts)), TupLess),
        committed |-> SetToSortSeq(StateAt(stmts, split), TupLess),
        \* primary keys of rows that existed before a statement of the transaction and were changed / deleted by it
        txRemoved |-> SetToSortSeq(UNION {Ids(Removed(StateAt(stmts, n - 1), stmts[n])) : n \in (split + 1)..Len(stmts)}, <),
        uniqueOK |-> HistUniqueOK(stmts),
        schemas |-> SetToSortSeq(SchemasFor(j, stmts), <)]]
Hist == TLCGet(1)
T1Of(j) == Range(Hist[j].final)
T2Of(j) == T2s[Hist[j].t2]
T3Of(j) == T3s[Hist[j].t3]
\* the table a query reads: t3 queries read the t3 variant of the history
TabOf(ast, j) == IF ast.tbl = "t3" THEN T3Of(j) ELSE T1Of(j)

ModOf(q) == IF q <= NSingle THEN QMod ELSE IF q <= NSingle + NJoin THEN JMod ELSE Q3Mod
Selected(j, q) == (q + Seed * 5 + j * 3) % ModOf(q) = 0
CasesDef ==
  LET pairs == SetToSortSeq({<<j, q>> \in (1..NH) \X (1..NQ) : Selected(j, q)}, TupLess)
  IN [i \in 1..Len(pairs) |->
       LET j == pairs[i][1] q == pairs[i][2] ast == QueryAt(q)
       IN [h |-> j, q |-> q, rows |-> Den(ast, TabOf(ast, j), T2Of(j)), touchy |-> Touchy(ast, TabOf(ast, j), T2Of(j))]]
Cases == TLCGet(2)

\* partition identity: for the plain full-row query Q over t1 and every predicate P
PartQ(w) == [tbl |-> "t1", join |-> <<>>, where |-> w, shape |-> Shapes[1], pi |-> 0, si |-> 1]
PartSelected(j, p) == (p + Seed * 3 + j * 2) % PMod = 0
PartsDef ==
  LET pairs == SetToSortSeq({<<j, p>> \in (1..NH) \X (1..NP) : PartSelected(j, p)}, TupLess)
  IN [i \in 1..Len(pairs) |->
       LET j == pairs[i][1] p == Preds[pairs[i][2]] T1 == T1Of(j) T2 == T2Of(j)
       IN [h |-> j, p |-> pairs[i][2],
           all |-> Den(PartQ(<<>>), T1, T2), pos |-> Den(PartQ(<<p>>), T1, T2),
           neg |-> Den(PartQ(<<Not(p)>>), T1, T2), nul |-> Den(PartQ(<<PIsNull(p)>>), T1, T2),
           touchy |-> Touchy(PartQ(<<Not(p)>>), T1, T2)]]
Parts == TLCGet(3)

\* facts about the denotation itself, decided by TLC over everything sampled
PartitionHolds == \A i \in 1..Len(Parts) :
  LET x == Parts[i] IN /\ Range(x.pos) \cup Range(x.neg) \cup Range(x.nul) = Range(x.all)
                       /\ Len(x.pos) + Len(x.neg) + Len(x.nul) = Len(x.all)
\* ORDER BY output is sorted; DISTINCT output has no duplicates
SortedOK == \A i \in 1..Len(Cases) :
  LET sh == QueryAt(Cases[i].q).shape rows == Cases[i].rows
  IN sh.kind = "rows" =>
       /\ \A n \in 1..(Len(rows) - 1) :
            LET keys == [z \in 1..Len(sh.order) |-> <<PosIn(sh.proj, sh.order[z][1]), sh.order[z][2], sh.order[z][3]>>]
            IN ~LexLess(keys, rows[n + 1], rows[n])
       /\ sh.distinct => Cardinality(Range(rows)) = Len(rows)
\* NULL sorts first ascending and last descending (the dialect the harness checks the engine against) unless NULLS FIRST / LAST says otherwise
NullFirst == \A i \in 1..Len(Cases) :
  LET sh == QueryAt(Cases[i].q).shape rows == Cases[i].rows
  IN (sh.kind = "rows" /\ Len(sh.order) > 0 /\ Len(rows) > 1) =>
       LET p == PosIn(sh.proj, sh.order[1][1])
           first == sh.order[1][3] = "first" \/ (sh.order[1][3] = "" /\ ~sh.order[1][2])
       IN (\E n \in 1..Len(rows) : rows[n][p] = NULL) => (IF first THEN rows[1][p] = NULL ELSE rows[Len(rows)][p] = NULL)

Count(S) == Cardinality(S)
StmtKinds == {"ins", "upsert", "insdn", "upd", "del"}
Facts ==
  /\ PrintT(<<"PartitionHolds", PartitionHolds>>)
  /\ PrintT(<<"SortedOK", SortedOK>>)
  /\ PrintT(<<"NullFirst", NullFirst>>)
  /\ PrintT(<<"count", "histories", NH>>)
  /\ PrintT(<<"count", "queries", NQ>>)
  /\ PrintT(<<"count", "single-table queries", NSingle>>)
  /\ PrintT(<<"count", "join queries", NJoin>>)
  /\ PrintT(<<"count", "t3 queries", NT3>>)
  /\ PrintT(<<"count", "join cases", Count({i \in 1..Len(Cases) : Len(QueryAt(Cases[i].q).join) > 0})>>)
  /\ PrintT(<<"count", "t3 cases", Count({i \in 1..Len(Cases) : QueryAt(Cases[i].q).tbl = "t3"})>>)
  /\ PrintT(<<"count", "multi-column GROUP BY split cases",
              Count({i \in 1..Len(Cases) : LET sh == QueryAt(Cases[i].q).shape IN sh.kind = "group" /\ Len(sh.by) > 1
                       /\ Cardinality({Cases[i].rows[n][1] : n \in 1..Len(Cases[i].rows)}) < Len(Cases[i].rows)})>>)
  /\ PrintT(<<"count", "predicates", NP>>)
  /\ PrintT(<<"count", "shapes", NS>>)
  /\ PrintT(<<"count", "cases", Len(Cases)>>)
  /\ PrintT(<<"count", "partitions", Len(Parts)>>)
  /\ PrintT(<<"count", "touchy cases", Count({i \in 1..Len(Cases) : Cases[i].touchy})>>)
  /\ PrintT(<<"count", "cases with a non-empty answer", Count({i \in 1..Len(Cases) : Len(Cases[i].rows) > 0})>>)
  /\ PrintT(<<"count", "partitions with a non-empty NULL part", Count({i \in 1..Len(Parts) : Len(Parts[i].nul) > 0})>>)
  /\ PrintT(<<"count", "worlds", FoldLeft(LAMBDA acc, h : acc + Len(h.schemas), 0, Hist)>>)
  /\ PrintT(<<"count", "histories with a transaction", Count({j \in 1..NH : Hist[j].split < Len(Hist[j].stmts)})>>)
  /\ PrintT(<<"count", "histories whose transaction removes rows", Count({j \in 1..NH : Len(Hist[j].txRemoved) > 0})>>)
  /\ \A kd \in StmtKinds :
        PrintT(<<"count", "histories with " \o kd, Count({j \in 1..NH : \E n \in 1..Len(Hist[j].stmts) : Hist[j].stmts[n].k = kd})>>)
  /\ \A sv \in 1..Len(Schemas) :
        PrintT(<<"count", "worlds under schema " \o Schemas[sv].name, Count({j \in 1..NH : \E z \in 1..Len(Hist[j].schemas) : Hist[j].schemas[z] = sv})>>)

ASSUME /\ TLCSet(1, HistOutDef)
       /\ TLCSet(2, CasesDef)
       /\ TLCSet(3, PartsDef)
       /\ Facts
       /\ JsonSerialize(OutFile,
            [seed |-> Seed, null |-> NULL, any |-> ANY, schemas |-> Schemas, histories |-> Hist,
             preds |-> Preds, queries |-> [q \in 1..NQ |-> QueryAt(q)], nsingle |-> NSingle, njoin |-> NJoin,
             cases |-> Cases, parts |-> Parts])

VARIABLE x
Init == x = 0
Next == x < 1 /\ x' = x + 1
=============================================================================
