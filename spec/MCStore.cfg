CONSTANTS
  Genesis = 0
  Unavailable = 999999
  MaxTx = 3
  MaxGen = 4
  MaxActive = 2
SPECIFICATION MCSpec
INVARIANTS StoreInv
PROPERTIES MCAppendOnly
VIEW MCView
CHECK_DEADLOCK FALSE
