------------------------------ MODULE TraceSQLTx ------------------------------
(***************************************************************************)
(* SQLTx driven by a script instead of by non-determinism: the file        *)
(* trace.ndjson holds one event per line                                   *)
(*   {"ev":"reset","b":n,"q":[..]}         a new behaviour starts; q = the *)
(*                                         quirks it is to be run with     *)
(*   {"ev":"step","b":n,"s":..,"k":..,"id":..,"u":..,"v":..,              *)
(*    "chk":0|1,"ct":0|1,"cc":0|1,"out":..,"res":..,"cnt":..,"pk":..,     *)
(*    "tbl":..}                                                            *)
(*                                         session s issues the statement; *)
(*                                         with chk=1 the fields after it  *)
(*                                         are what the real engine did    *)
(*                                         (ct=1: tbl was scanned, cc=1:   *)
(*                                         count and key were reported)    *)
(*   {"ev":"scan","b":n,"cmp":c,"rows":[[id,u,v],..]}  a full scan of the *)
(*                                         real table in a fresh read:     *)
(*                                         c=0 the rows must satisfy the   *)
(*                                         declared constraints, c=1 and   *)
(*                                         equal the model's table, c=2    *)
(*                                         only equal the model's table    *)
(* Uses (both with the very actions of SQLTx, Step(s, m)):                 *)
(*  - prediction: what does the code as transcribed (Quirks = all) do on   *)
(*    the behaviours TLC generated from the design?  (classification of    *)
(*    deviations seen in the replay on the real engine);                   *)
(*  - trace validation: real concurrent sessions, their committed          *)
(*    transactions serialised in the order of the commit tx ids; every     *)
(*    logged outcome, query result, count and key is compared with the     *)
(*    design (Quirks = {}), the module's invariants are evaluated at every *)
(*    step, and RealConstraintsHold on every scanned real table.           *)
(* A behaviour whose next statement is not applicable in the model (its    *)
(* transaction no longer exists there) is dropped from that point on.      *)
(***************************************************************************)
EXTENDS SQLTx

VARIABLES l,       \* next line of the trace
          b,       \* current behaviour
          qv,      \* quirks the current behaviour is run with
          dead,    \* the current behaviour left the model
          mism,    \* first mismatch of the current behaviour: <<>> or <<line, field>>
          obsTbl   \* last scanned real table
tvars == <<vars, l, b, qv, dead, mism, obsTbl>>

Trace == ndJsonDeserialize("trace.ndjson")

ResetModel == /\ tbl' = EmptyTable
              /\ sess' = [s \in Sessions |-> IdleSession(0, "idle")]
              /\ last' = Obs(0, St("init", 0, "", ""), "ok", NoRes, EmptyTable, "idle", FALSE, FALSE)
              /\ hist' = <<>> /\ fired' = {}

TraceInit == Init /\ l = 1 /\ b = 0 /\ qv = {} /\ dead = FALSE /\ mism = <<>> /\ obsTbl = <<>>

Flush == (hist # <<>> \/ mism # <<>>) =>
           PrintT(<<"JSON:", ToJson([b |-> b, q |-> qv, steps |-> hist, fired |-> fired, dead |-> dead, mism |-> mism])>>)

Applicable(s, m) ==
  /\ sess[s].st # "closed" /\ sess[s].n < MaxStmts
  /\ m.k \in {"commit", "rollback", "close", "sp", "rbto", "rel"} => sess[s].st = "tx"
  /\ m.k = "begin" => sess[s].st = "idle"

Differs(e, o) ==
  IF e.out # o.out THEN "out"
  ELSE IF e.out = "ok" /\ e.k \in QryKinds /\ e.res # o.res THEN "res"
  ELSE IF e.cc = 1 /\ e.out = "ok" /\ e.k \in DmlKinds /\ e.cnt # o.cnt THEN "cnt"
  ELSE IF e.cc = 1 /\ e.out = "ok" /\ e.k = "insA" /\ e.pk # o.pk THEN "pk"
  ELSE IF e.ct = 1 /\ e.tbl # o.tbl THEN "tbl"
  ELSE ""

\* a scanned real table satisfies the declared constraints (rows are <<id, u, v>>)
RealCH(rows) ==
  /\ \A i, j \in 1..Len(rows) : i # j => (rows[i][1] # rows[j][1] /\ rows[i][2] # rows[j][2])
  /\ \A i \in 1..Len(rows) : rows[i][2] \in UVals /\ rows[i][3] \in VVals
\* as an invariant (stops TLC at the first breach; the checks record the breach in mism instead)
RealConstraintsHold == RealCH(obsTbl)

TraceNext ==
  /\ l <= Len(Trace)
  /\ l' = l + 1
  /\ LET e == Trace[l] IN
     CASE e.ev = "reset" ->
            /\ Flush /\ ResetModel /\ b' = e.b /\ qv' = {e.q[i] : i \in 1..Len(e.q)} /\ dead' = FALSE /\ mism' = <<>> /\ obsTbl' = <<>>
       [] e.ev = "scan" ->
            /\ obsTbl' = IF e.cmp < 2 THEN e.rows ELSE obsTbl
            /\ mism' = IF mism # <<>> \/ dead THEN mism
                       ELSE IF e.cmp < 2 /\ ~RealCH(e.rows) THEN <<l, "breach">>
                       ELSE IF e.cmp > 0 /\ e.rows # TableSeq(tbl.rows) THEN <<l, "scan">>
                       ELSE mism
            /\ UNCHANGED <<vars, b, qv, dead>>
       [] e.ev = "step" ->
            LET m == St(e.k, e.id, e.u, e.v) IN
            IF dead \/ ~Applicable(e.s, m)
            THEN /\ dead' = TRUE /\ UNCHANGED <<vars, b, qv, mism, obsTbl>>
            ELSE /\ LET t == Transition(qv, tbl, sess, e.s, m)       \* SQLTx!Step with the behaviour's own quirk set
                    IN /\ sess' = t.sess /\ tbl' = t.tbl /\ last' = t.obs
                       /\ hist' = Append(hist, t.obs) /\ fired' = fired \cup t.obs.tags
                 /\ mism' = IF mism = <<>> /\ e.chk = 1 /\ Differs(e, last') # "" THEN <<l, Differs(e, last')>> ELSE mism
                 /\ UNCHANGED <<b, qv, dead, obsTbl>>

TraceSpec == TraceInit /\ [][TraceNext]_tvars


\* the whole trace was consumed
TraceAccepted == TLCGet("stats").diameter - 1 = Len(Trace)
=============================================================================
