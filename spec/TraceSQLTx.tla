------------------------------ MODULE TraceSQLTx ------------------------------
(***************************************************************************)
(* SQLTx driven by a script instead of by non-determinism: the file        *)
(* trace.ndjson holds one event per line                                   *)
(*   {"ev":"reset","b":n}                  a new behaviour starts          *)
(*   {"ev":"step","b":n,"s":..,"k":..,"id":..,"u":..,"v":..,              *)
(*    "chk":0|1,"out":..,"res":..,"cnt":..,"pk":..,"tbl":..}              *)
(*                                         session s issues the statement; *)
(*                                         with chk=1 the fields after it  *)
(*                                         are what the real engine did    *)
(*   {"ev":"scan","b":n,"rows":[[id,u,v],..]}  a full scan of the real     *)
(*                                         table in a fresh read           *)
(* Uses (both with the very actions of SQLTx, Step(s, m)):                 *)
(*  - prediction: what does the code as transcribed (Quirks = all) do on   *)
(*    the behaviours TLC generated from the design?  (classification of    *)
(*    deviations seen in the replay on the real engine);                   *)
(*  - trace validation: real concurrent sessions, their committed          *)
(*    transactions serialised in the order of the commit tx ids; every     *)
(*    logged outcome, query result, count and key is compared with the     *)
(*    design (Quirks = {}), the module's invariants are evaluated at every *)
(*    step, and RealConstraintsHold on every scanned real table.           *)
(* A behaviour whose next statement is not applicable in the model (its    *)
(* transaction no longer exists there) is dropped from that point on.      *)
(***************************************************************************)
EXTENDS SQLTx

VARIABLES l,       \* next line of the trace
          b,       \* current behaviour
          dead,    \* the current behaviour left the model
          mism,    \* first mismatch of the current behaviour: <<>> or <<line, field>>
          obsTbl   \* last scanned real table
tvars == <<vars, l, b, dead, mism, obsTbl>>

Trace == ndJsonDeserialize("trace.ndjson")

ResetModel == /\ tbl' = EmptyTable
              /\ sess' = [s \in Sessions |-> IdleSession(0, "idle")]
              /\ last' = Obs(0, St("init", 0, "", ""), "ok", NoRes, EmptyTable, "idle", FALSE, FALSE)
              /\ hist' = <<>> /\ fired' = {}

TraceInit == Init /\ l = 1 /\ b = 0 /\ dead = FALSE /\ mism = <<>> /\ obsTbl = <<>>

Flush == (hist # <<>> \/ mism # <<>>) =>
           PrintT(<<"JSON:", ToJson([b |-> b, steps |-> hist, fired |-> fired, dead |-> dead, mism |-> mism])>>)

Applicable(s, m) ==
  /\ sess[s].st # "closed" /\ sess[s].n < MaxStmts
  /\ m.k \in {"commit", "rollback", "close", "sp", "rbto", "rel"} => sess[s].st = "tx"
  /\ m.k = "begin" => sess[s].st = "idle"

Differs(e, o) ==
  IF e.out # o.out THEN "out"
  ELSE IF e.out = "ok" /\ e.k \in QryKinds /\ e.res # o.res THEN "res"
  ELSE IF e.out = "ok" /\ e.k \in DmlKinds /\ e.cnt # o.cnt THEN "cnt"
  ELSE IF e.out = "ok" /\ e.k = "insA" /\ e.pk # o.pk THEN "pk"
  ELSE IF e.tbl # o.tbl THEN "tbl"
  ELSE ""

TraceNext ==
  /\ l <= Len(Trace)
  /\ l' = l + 1
  /\ LET e == Trace[l] IN
     CASE e.ev = "reset" ->
            /\ Flush /\ ResetModel /\ b' = e.b /\ dead' = FALSE /\ mism' = <<>> /\ obsTbl' = <<>>
       [] e.ev = "scan" ->
            /\ obsTbl' = e.rows
            /\ mism' = IF mism = <<>> /\ ~dead /\ e.rows # TableSeq(tbl.rows) THEN <<l, "scan">> ELSE mism
            /\ UNCHANGED <<vars, b, dead>>
       [] e.ev = "step" ->
            LET m == St(e.k, e.id, e.u, e.v) IN
            IF dead \/ ~Applicable(e.s, m)
            THEN /\ dead' = TRUE /\ UNCHANGED <<vars, b, mism, obsTbl>>
            ELSE /\ Step(e.s, m)
                 /\ mism' = IF mism = <<>> /\ e.chk = 1 /\ Differs(e, last') # "" THEN <<l, Differs(e, last')>> ELSE mism
                 /\ UNCHANGED <<b, dead, obsTbl>>

TraceSpec == TraceInit /\ [][TraceNext]_tvars

\* every scanned real table satisfies the declared constraints (rows are <<id, u, v>>)
RealConstraintsHold ==
  /\ \A i, j \in 1..Len(obsTbl) : i # j => (obsTbl[i][1] # obsTbl[j][1] /\ obsTbl[i][2] # obsTbl[j][2])
  /\ \A i \in 1..Len(obsTbl) : obsTbl[i][2] \in UVals /\ obsTbl[i][3] \in VVals

\* the whole trace was consumed
TraceAccepted == TLCGet("stats").diameter - 1 = Len(Trace)
=============================================================================
