---------------------------- MODULE TraceKVLin ----------------------------
(***************************************************************************)
(* Trace validation of real concurrent pkg/database histories against      *)
(* KVLin.tla, with UNLOGGED linearization points.                          *)
(*                                                                         *)
(* The ndjson file (env VERIF_TRACE) holds, in the order of a global       *)
(* atomic sequence number taken immediately before every call and          *)
(* immediately after every return:                                         *)
(*   Reset  w          a fresh database (empty abstract state)             *)
(*   Init   w state    a window replayed alone: the abstract state at the  *)
(*                     quiescent point before it, as printed by TCut       *)
(*   Call   w c op res client c invokes op; `res` is a copy of the result  *)
(*                     the matching Ret carries (e = "?" if no Ret was     *)
(*                     recorded); it only prunes the search                *)
(*   Ret    w c res    client c receives res                               *)
(*   Maint  w what     a FlushIndex / CompactIndex call returned (no       *)
(*                     effect on the abstract state)                       *)
(*   Cut    w          quiescent point after window w (all clients idle)   *)
(* TLC places the silent Lin steps.  The search is restricted, without     *)
(* loss of generality, to linearizations in canonical form: Lin steps are  *)
(* taken only immediately before a Ret event whose operation is not yet    *)
(* linearized, and the last of them is the Lin of the returning client     *)
(* (any linearization can be brought into this form by delaying every Lin  *)
(* step up to the next Ret event; delaying a Lin step past Call events     *)
(* changes nothing).  The tx ids returned by writes pin the write order:   *)
(* the Lin of a write that returned tx id n is enabled only when           *)
(* committed = n - 1.                                                      *)
(*                                                                         *)
(* Verdict per window: window w is ACCEPTED iff some behaviour reaches its *)
(* Cut line in mode "strict" (TCut prints strict = TRUE).  So that one     *)
(* rejected window does not hide the windows after it, every window can    *)
(* also be passed in mode "lenient" (entered only at the first line of a   *)
(* window): results are ignored and the acknowledged writes are applied in *)
(* the order of their tx ids - the abstract state at the next quiescent    *)
(* point is re-synchronised from the trace itself, never from the          *)
(* database.  Both modes reach the same state at the Cut.                  *)
(*                                                                         *)
(* TLC register 1: high-water mark of consumed lines (any mode);           *)
(* register 1000 + w: high-water mark of window w in mode strict (the line *)
(* no linearization can get past, reported for rejected windows).          *)
(* -workers 1, depth-first queue.                                          *)
(***************************************************************************)
EXTENDS KVLin, Json, IOUtils, TLCExt

TraceLog == ndJsonDeserialize(IOEnv.VERIF_TRACE)
NL == Len(TraceLog)
\* "" = the specification; "stale" / "refsplit" / "both" = classification runs on already rejected windows
Diag == IF "VERIF_DIAG" \in DOMAIN IOEnv THEN IOEnv.VERIF_DIAG ELSE ""
\* classification looks back at most DiagK committed states ("all" = every state since the database was created)
DiagK == IF "VERIF_DIAG_K" \in DOMAIN IOEnv /\ IOEnv.VERIF_DIAG_K # "all" THEN atoi(IOEnv.VERIF_DIAG_K)
         ELSE IF "VERIF_DIAG_K" \in DOMAIN IOEnv THEN 1000000 ELSE 48
Windows == {TraceLog[i].w : i \in 1..NL}

TKeySeq == <<"a0", "a1", "a2", "a3", "b0", "b1", "b2", "b3">>
TKeyGroup == [k \in {"a0", "a1", "a2", "a3"} |-> "a"] @@ [k \in {"b0", "b1", "b2", "b3"} |-> "b"]
TClients == 1..8

VARIABLES l,      \* next line to consume
          exp,    \* client -> the result its pending call will return (prophecy read from the Call line)
          mode    \* "strict" | "lenient"
tvars == <<vars, l, exp, mode>>

Ev == TraceLog[l]
IsEvent(e) == l <= NL /\ TraceLog[l].ev = e /\ l' = l + 1
Strict == mode = "strict"

Fresh == /\ pend' = [c \in Clients |-> Idle]
         /\ exp' = [c \in Clients |-> NoRes]
         /\ mode' = "strict"

TraceInit ==
  /\ Init /\ l = 1 /\ exp = [c \in Clients |-> NoRes] /\ mode = "strict"
  /\ TLCSet(1, 1) /\ \A w \in Windows : TLCSet(1000 + w, 0)

TReset == IsEvent("Reset") /\ kv' = [k \in Keys |-> <<>>] /\ zs' = {} /\ committed' = 0 /\ orph' = <<>> /\ Fresh

TInit ==
  /\ IsEvent("Init")
  /\ kv' = [k \in Keys |-> Ev.state.kv[k]]
  /\ zs' = {Ev.state.zs[i] : i \in 1..Len(Ev.state.zs)}
  /\ committed' = Ev.state.committed
  /\ orph' = Ev.state.orph
  /\ Fresh

\* a rejected window must not hide the following ones: give up on linearizing this window (first line only)
TGiveUp ==
  /\ Strict /\ l <= NL /\ Ev.ev \in {"Call", "Maint"}
  /\ l = 1 \/ TraceLog[l - 1].ev \in {"Reset", "Init", "Cut"}
  /\ mode' = "lenient"
  /\ UNCHANGED <<vars, l, exp>>

TMaint == IsEvent("Maint") /\ UNCHANGED <<vars, exp, mode>>

TCall ==
  /\ IsEvent("Call")
  /\ Call(Ev.c, Ev.op)
  /\ exp' = [exp EXCEPT ![Ev.c] = Ev.res]
  /\ UNCHANGED mode

\* a call by a client whose previous operation never returned: that operation stays pending (silent step)
TAbandon ==
  /\ l <= NL /\ Ev.ev = "Call" /\ pend[Ev.c].st # "idle"
  /\ Abandon(Ev.c)
  /\ UNCHANGED <<l, exp, mode>>

\* ---- mode strict: silent linearization points, canonical form (see the header)
BatchOpen == l <= NL /\ Ev.ev = "Ret" /\ pend[Ev.c].st = "called"
TLin(c) ==
  /\ Strict /\ BatchOpen /\ pend[c].st = "called"
  /\ IF Diag = "" \/ (\E out \in Outcomes(pend[c].op) : out.res = exp[c])
     THEN Lin(c)       \* (when the atomic outcome matches, the classification outcomes that match lead to the same state)
     ELSE LinFrom(c, DiagOutcomes(pend[c].op, Diag, committed - DiagK))
  /\ exp[c].e = "?" \/ pend'[c].res = exp[c]
  /\ UNCHANGED <<l, exp, mode>>
TLinOrphan(i) == Strict /\ BatchOpen /\ LinOrphan(i) /\ UNCHANGED <<l, exp, mode>>

TRet ==
  /\ Strict /\ IsEvent("Ret")
  /\ Return(Ev.c, Ev.res)
  /\ UNCHANGED <<exp, mode>>

\* ---- mode lenient: only the acknowledged writes, in the order of their tx ids, without any check
Acked(c) == pend[c].st = "called" /\ IsWrite(pend[c].op) /\ exp[c].e = "ok" /\ exp[c].tx > 0
TForce(c) ==
  /\ ~Strict /\ l <= NL /\ Ev.ev = "Ret" /\ Acked(Ev.c)
  /\ Acked(c) /\ exp[c].tx = committed + 1 /\ exp[c].tx <= exp[Ev.c].tx
  /\ LinWith(c, Effect(pend[c].op))
  /\ UNCHANGED <<l, exp, mode>>
TRetLenient ==
  /\ ~Strict /\ IsEvent("Ret")
  /\ ~Acked(Ev.c)
  /\ pend' = [pend EXCEPT ![Ev.c] = Idle]
  /\ UNCHANGED <<kv, zs, committed, orph, exp, mode>>

\* quiescent point: the abstract state is printed so that any window can be replayed alone
CutState == [w |-> Ev.w, strict |-> Strict, committed |-> committed, kv |-> kv, zs |-> SetToSeq(zs), orph |-> orph]
TCut ==
  /\ IsEvent("Cut")
  /\ PrintT(<<"JSON:", ToJson(CutState)>>)
  /\ mode' = "strict"
  /\ UNCHANGED <<vars, exp>>

TraceNext ==
  \/ TReset \/ TInit \/ TGiveUp \/ TMaint \/ TCall \/ TAbandon \/ TRet \/ TRetLenient \/ TCut
  \/ \E c \in Clients : TLin(c) \/ TForce(c)
  \/ \E i \in 1..Len(orph) : TLinOrphan(i)

TraceSpec == TraceInit /\ [][TraceNext]_tvars

\* the invariants of KVLin on the abstract state, evaluated at every quiescent point of the real execution
\* (every version list is a prefix-extension of the previous one, so checking at the cuts covers all versions)
CutInv == (l > 1 /\ TraceLog[l - 1].ev = "Cut") => LinInv

\* high-water marks (CONSTRAINT: evaluated on every state found)
Max2(a, b) == IF a > b THEN a ELSE b
HighWater ==
  /\ TLCSet(1, Max2(l, TLCGet(1)))
  /\ IF Strict /\ l > 1 /\ TraceLog[l - 1].ev # "Cut"     \* (after a Cut the mode is strict again whatever it was)
     THEN LET w == TraceLog[l - 1].w IN TLCSet(1000 + w, Max2(l, TLCGet(1000 + w))) ELSE TRUE

\* POSTCONDITION: every line was consumed (in some mode); the per-window verdicts are the strict Cut prints
TraceAccepted ==
  LET hw == TLCGet(1) IN
  /\ PrintT(<<"HW:", ToJson(SetToSeq({<<w, TLCGet(1000 + w)>> : w \in Windows}))>>)
  /\ IF hw = NL + 1 THEN TRUE
     ELSE Print(<<"TRACE-STUCK-AT-LINE", hw, IF hw <= NL THEN TraceLog[hw] ELSE "eof">>, FALSE)
=============================================================================
