----------------------------- MODULE Corruption -----------------------------
(***************************************************************************)
(* Property C09: corruption of stored data is detected, never served.      *)
(*                                                                         *)
(* (a) The on-disk formats as field lists (embedded/store):                *)
(*   tx-log record (immustore.go performPrecommit / tx.go txDataReader):   *)
(*     header  id(8) ts(8) blTxID(8) blRoot(32) prevAlh(32) version(2)     *)
(*             v0: nentries(2)                                             *)
(*             v1: hMdLen(2) hMd(hMdLen) nentries(4)                       *)
(*                 hMd = attribute*: code 0 (truncated-upto) txid(8)       *)
(*                                   code 1 (extra) len(2) bytes(len)      *)
(*     entry*  eMdLen(2) eMd(eMdLen) kLen(2) key(kLen) vLen(4) vOff(8)     *)
(*             hVal(32); eMd = attribute*: code 0 (deleted), code 2        *)
(*             (non-indexable), code 1 (expires-at) ts(8)                  *)
(*     alh(32)                                                             *)
(*   commit-log entry: cTxOff(8) cTxSize(4) cAlh(32)                       *)
(*   value bytes: plain value log  val(vLen) at vOff (vOff = id<<56|off);  *)
(*     compressed value log valCLen(4) valComp(valCLen); embedded values   *)
(*     embLen(2) valEmb* written in the tx log right before the record.    *)
(*                                                                         *)
(* (b) Which check authenticates which field on which read path (named     *)
(*     after the code):                                                    *)
(*   HdrBounds   tx.go readHeader: version in {0,1}, hMdLen <= max,        *)
(*               nentries <= maxTxEntries; id = 0 is EOF                   *)
(*   TxMdParse   tx_metadata.go ReadFrom: unknown attribute, short         *)
(*               truncated-upto attribute; the extra attribute's length is *)
(*               NOT checked against the buffer (FixMdBounds)              *)
(*   KvMdParse   kv_metadata.go unsafeReadFrom: unknown attribute, short   *)
(*               expires-at, len > max                                     *)
(*   EntryBounds tx.go readEntry: kLen <= maxKeyLen; reader EOF            *)
(*   Alh         tx.go buildAndValidateHtree: Eh rebuilt from the entry    *)
(*               digests (v0: key,hVal; v1: mdLen,md,kLen,key,hVal - md    *)
(*               re-serialised from the decoded attributes), Alh rebuilt   *)
(*               from id, prevAlh, ts, version, md (re-serialised),        *)
(*               nentries, Eh, blTxID, blRoot and compared with alh.       *)
(*               vLen and vOff are covered by NO digest.                   *)
(*   ReaderSize  appendable.Reader: cTxSize is only the read-buffer size;  *)
(*               0 makes ReadAt fail                                       *)
(*   TxLogSize   OpenWith: cTxOff + cTxSize of the LAST tx <= tx-log size  *)
(*   CLogAlh     OpenWith: cAlh of the LAST commit-log entry = Alh of the  *)
(*               record (no other path reads cAlh)                         *)
(*   PrevAlh     tx_reader.go Read: from the second tx on, prevAlh chains  *)
(*   ValueHash   immustore.go readValueAt: n = vLen and sha256 = hVal;     *)
(*               ReadValue and valueRef.Resolve return before it when      *)
(*               vLen = 0 (FixVLenZero)                                    *)
(*   VLogId      fetchVLog: embedded: id must be 0; single value log: id   *)
(*               must be 1; several value logs: map lookup with no bounds  *)
(*               check (FixVLogBound); id 0 in a non-embedded store = EOF  *)
(*   ExportTx takes EOF from readValueAt for "value truncated" and either  *)
(*   exports the tx without values or fails with "partially truncated"     *)
(*   while holding _valBsMux (FixExportEof).                               *)
(*   No path checks that the record found at cTxOff carries the requested  *)
(*   tx id (FixTxBinding).                                                 *)
(*                                                                         *)
(* (c) A small machine: choose configuration, position of the tx, shape,   *)
(*     one or two alterations, then one read path; the outcome is computed *)
(*     by the tables below.  Invariant DetectedOrInvisible.  With all Fix* *)
(*     FALSE the model is the code as read; the cells that violate the     *)
(*     invariant are candidates to examine on the real code (never         *)
(*     verdicts); with all Fix* TRUE (and AcceptLocators: vLen/vOff that   *)
(*     are returned but not dereferenced are locators, not content) the    *)
(*     invariant must hold.                                                *)
(***************************************************************************)
EXTENDS Naturals, Sequences, FiniteSets, TLC, Json, SequencesExt, FiniteSetsExt

CONSTANTS OutFile,        \* where the matrix is written ("" = do not write)
          Seed,           \* picks the class combination per field pair
          CfgNames,       \* configurations to enumerate (subset of AllCfgNames)
          MaxAlts,        \* 1 or 2 alterations in the state machine
          FixVLenZero, FixTxBinding, FixMdBounds, FixVLogBound, FixExportEof,
          AcceptLocators  \* TRUE: vLen/vOff returned without dereference are locators, not committed content

-----------------------------------------------------------------------------
(* configurations: header version / value placement / number of value logs *)
AllCfgNames == {"v1/plain/single", "v0/plain/single", "v1/comp/single", "v1/emb/single", "v1/plain/multi",
                "v0/comp/single", "v0/emb/single", "v0/plain/multi", "v1/comp/multi", "v0/comp/multi"}
Vers(c)  == IF c \in {"v0/plain/single", "v0/comp/single", "v0/emb/single", "v0/plain/multi", "v0/comp/multi"} THEN 0 ELSE 1
Vals(c)  == IF c \in {"v1/plain/single", "v0/plain/single", "v1/plain/multi", "v0/plain/multi"} THEN "plain"
            ELSE IF c \in {"v1/emb/single", "v0/emb/single"} THEN "emb" ELSE "comp"
Multi(c) == c \in {"v1/plain/multi", "v0/plain/multi", "v1/comp/multi", "v0/comp/multi"}

Positions == {"first", "last", "inner"}   \* the altered tx is tx 1 / the last committed tx / any other
Shapes    == {"n1", "nN"}           \* the altered tx has one entry / several entries
Paths     == <<"Open", "ReadTx", "ReadTxHeader", "ReadTxEntry", "ReadValue", "ExportTx", "TxReader", "Proof", "IndexRebuild">>
PathSet   == {Paths[i] : i \in 1..Len(Paths)}

-----------------------------------------------------------------------------
(* (a) fields: name, where it lives, kind *)
HeaderFields == <<"id", "ts", "blTxID", "blRoot", "prevAlh", "version", "hMdLen", "hMdLenX", "hMdCode", "hMdTrunc",
                  "hMdExtraLen", "hMdExtra", "nentries">>
EntryFields  == <<"eMdLen", "eMdCode", "eMdExp", "kLen", "key", "vLen", "vOff", "hVal">>
TrailerFields == <<"alh">>
ClogFields   == <<"cTxOff", "cTxSize", "cAlh">>
ValueFields  == <<"val", "valCLen", "valComp", "valEmb", "embLen">>
FieldSeq == HeaderFields \o EntryFields \o TrailerFields \o ClogFields \o ValueFields
Fields == {FieldSeq[i] : i \in 1..Len(FieldSeq)}
FieldIdxTab == [f \in Fields |-> CHOOSE i \in 1..Len(FieldSeq) : FieldSeq[i] = f]    \* memo (constant, evaluated once)
FieldIdx(f) == FieldIdxTab[f]

\* hMdLenX is hMdLen of a header whose metadata holds an extra attribute (the outcome differs)
V1Only == {"hMdLen", "hMdLenX", "hMdCode", "hMdTrunc", "hMdExtraLen", "hMdExtra", "eMdCode", "eMdExp"}
Present(c, f) ==
  /\ (f \in V1Only => Vers(c) = 1)
  /\ (f = "val" => Vals(c) = "plain")
  /\ (f \in {"valCLen", "valComp"} => Vals(c) = "comp")
  /\ (f \in {"valEmb", "embLen"} => Vals(c) = "emb")

RecordFields == {HeaderFields[i] : i \in 1..Len(HeaderFields)} \cup {EntryFields[i] : i \in 1..Len(EntryFields)} \cup {"alh"}
Locators == {"vLen", "vOff"}
ValueBytes == {"val", "valCLen", "valComp", "valEmb"}

(* alteration classes per field.  A class is an abstract effect on the decoded value; whether one flipped
   bit or several realise it depends on the concrete value (the harness decides).
     lengths   up / down (non-zero) / zero
     vLen      upIn / upOut: the longer range is inside / beyond the log
     vOff      lowIn / lowOut: offset bits 0..54, new range inside / beyond the log; masked55: bit 55 is
               dropped by decodeOffset; vlogid0 / vlogidX / vlogidOOR: bits 56..62 give id 0 / another
               existing value log / no existing value log; sign63: bit 63
     cTxOff    bit (somewhere that is not a record start) / retarget (start of another tx's record)
     eMdCode   bit / reorder (two payload-free attributes swapped: decodes to the same set)
     valCLen, valComp (compressed record)  decSame: decodes to the same bytes (padding bits, bytes after the
               end-of-stream marker, a longer length that still ends inside the file; decoder errors are ignored
               by the code) / decEof: decodes short / decDiff: decodes to other bytes
     others    bit (one bit or several bits of the field: the value changes)                       *)
Classes(c, f) ==
  CASE f \in {"hMdLen", "hMdLenX", "hMdExtraLen", "nentries", "eMdLen", "kLen", "cTxSize", "embLen"} -> <<"up", "down", "zero">>
    [] f \in {"valCLen", "valComp"} -> <<"decSame", "decEof", "decDiff">>
    [] f = "vLen" -> <<"upIn", "upOut", "down", "zero">>
    [] f = "vOff" -> IF Vals(c) = "emb" THEN <<"lowIn", "lowOut", "masked55", "vlogidOOR", "sign63">>
                     ELSE IF Multi(c) THEN <<"lowIn", "lowOut", "masked55", "vlogid0", "vlogidX", "vlogidOOR", "sign63">>
                     ELSE <<"lowIn", "lowOut", "masked55", "vlogid0", "vlogidOOR", "sign63">>
    [] f = "cTxOff" -> <<"bit", "retarget">>
    [] f = "eMdCode" -> <<"bit", "reorder">>
    [] OTHER -> <<"bit">>

AllAltsTab == [c \in AllCfgNames |-> UNION {{<<f, Classes(c, f)[k]>> : k \in 1..Len(Classes(c, f))} : f \in {g \in Fields : Present(c, g)}}]
AllAlts(c) == AllAltsTab[c]

\* compound alterations (several fields changed consistently, e.g. a misdirected write)
Compounds == {<<"clogdup", "entry">>,       \* commit-log entry := a copy of another tx's entry (off, size, alh)
              <<"valretarget", "entry">>}   \* (vLen, vOff) := those of another entry

-----------------------------------------------------------------------------
(* outcomes *)
Det(by)  == [exp |-> "detected", by |-> by]
Inv(why) == [exp |-> "invisible", by |-> why]
Unc(why) == [exp |-> "UNCOVERED", by |-> why]

\* reasons (candidates are grouped by them)
RLocator  == "locator-unauthenticated"      \* vLen/vOff are covered by no digest; returned as read when the value is not dereferenced
RVLenZero == "vlen-zero-skips-hash-check"   \* vLen = 0 returns the empty value before the hash check
ROverrun  == "txmd-extra-length-unchecked"  \* tx-metadata extra attribute: length not checked against the buffer (parser overrun)
RBinding  == "record-not-bound-to-tx-id"    \* no check binds the record found at cTxOff to the requested tx id
RVLogId   == "vlogid-unchecked-map-key"     \* vLogID is used as a map key without a bounds check
REofN1    == "eof-taken-for-truncation:export-without-values"
REofNN    == "eof-taken-for-truncation:error-with-valBsMux-held"

(* stage 1: effect of an alteration on parsing the record (readHeader, readEntry*, buildAndValidateHtree) *)
ParseEffect(c, f, cls) ==
  CASE f \in {"id", "ts", "blTxID", "blRoot", "prevAlh", "hMdTrunc", "hMdExtra", "key", "hVal", "alh", "eMdExp"} -> [k |-> "det", by |-> "Alh"]
    [] f = "version" -> [k |-> "det", by |-> "HdrBounds|Alh"]
    [] f = "hMdLen" -> [k |-> "det", by |-> "HdrBounds|TxMdParse|EOF|Alh"]
    [] f = "hMdLenX" -> IF cls = "down" /\ ~FixMdBounds THEN [k |-> "overrun", by |-> ROverrun]
                        ELSE [k |-> "det", by |-> "HdrBounds|TxMdParse|EOF|Alh"]
    [] f = "hMdExtraLen" -> IF cls = "up" /\ ~FixMdBounds THEN [k |-> "overrun", by |-> ROverrun]
                            ELSE [k |-> "det", by |-> "TxMdParse|Alh"]
    [] f = "hMdCode" -> [k |-> "det", by |-> "TxMdParse|Alh"]
    [] f = "nentries" -> [k |-> "det", by |-> "HdrBounds|EntryBounds|EOF|Alh"]
    [] f = "eMdLen" -> [k |-> "det", by |-> "KvMdParse|EntryBounds|EOF|Alh"]
    [] f = "eMdCode" -> IF cls = "reorder" THEN [k |-> "same", by |-> "same-decoded"]
                        ELSE [k |-> "det", by |-> "KvMdParse|Alh"]
    [] f = "kLen" -> [k |-> "det", by |-> "EntryBounds|EOF|Alh"]
    [] f \in Locators -> [k |-> "locator", by |-> RLocator]
    [] f = "cTxOff" -> IF cls = "retarget"
                       THEN (IF FixTxBinding THEN [k |-> "det", by |-> "TxIdBinding"] ELSE [k |-> "other", by |-> RBinding])
                       ELSE [k |-> "det", by |-> "HdrBounds|EOF|Alh"]
    [] f = "cTxSize" -> IF cls = "zero" THEN [k |-> "det", by |-> "ReaderSize"]
                        ELSE [k |-> "same", by |-> "buffer-size-only"]
    [] OTHER -> [k |-> "none", by |-> ""]

RecordRead(path, pos) == path # "Open" \/ pos = "last"       \* Open parses only the last record
ValueRead(path) == path \in {"ReadValue", "ExportTx", "IndexRebuild"}
EntriesReturned(path) == path \in {"ReadTx", "ReadTxEntry", "TxReader"}

(* stage 2: what dereferencing the value gives *)
ReadResult(c, f, cls) ==
  CASE f = "vLen" -> (CASE cls = "upIn" -> "hashfail" [] cls = "upOut" -> "eof" [] cls = "down" -> "hashfail" [] OTHER -> "zero")
    [] f = "vOff" -> (CASE cls = "lowIn" -> "hashfail"
                        [] cls = "lowOut" -> "eof"
                        [] cls = "masked55" -> "same"
                        [] cls = "vlogid0" -> "eof"
                        [] cls = "vlogidX" -> "eof"          \* the other log at that offset: EOF or other bytes
                        [] OTHER -> IF Multi(c) /\ ~FixVLogBound THEN "idpanic" ELSE "iderr")
    [] f \in {"val", "valEmb"} -> "hashfail"
    [] f \in {"valCLen", "valComp"} -> (CASE cls = "decSame" -> "same" [] cls = "decEof" -> "eof" [] OTHER -> "hashfail")
    [] OTHER -> "same"

\* precedence when two alterations meet in one dereference
Rank(r) == CASE r = "zero" -> 6 [] r = "idpanic" -> 5 [] r = "iderr" -> 4 [] r = "eof" -> 3 [] r = "hashfail" -> 2 [] OTHER -> 1
JoinRead(r1, r2) == IF Rank(r1) >= Rank(r2) THEN r1 ELSE r2

ValueOutcome(path, shape, r) ==
  CASE r = "same" -> Inv("same-bytes")
    [] r = "hashfail" -> Det("ValueHash")
    [] r = "iderr" -> Det("VLogId")
    [] r = "idpanic" -> Unc(RVLogId)
    [] r = "zero" -> IF path = "ExportTx" \/ FixVLenZero THEN Det("ValueHash") ELSE Unc(RVLenZero)
    [] OTHER -> \* eof
         IF path # "ExportTx" \/ FixExportEof THEN Det("EOF")
         ELSE IF shape = "n1" THEN Unc(REofN1) ELSE Unc(REofNN)

(* outcome of a set of alterations of ONE tx (record, its commit-log entry, its values) on one path *)
IsCompound(a) == a \in Compounds
AsSingles(a) == IF a = <<"clogdup", "entry">> THEN {<<"cTxOff", "retarget">>, <<"cAlh", "dup">>}
                ELSE IF a = <<"valretarget", "entry">> THEN {<<"vLen", "down">>, <<"vOff", "lowIn">>}
                ELSE {a}
Expand(as) == UNION {AsSingles(a) : a \in as}

\* outcome per path of ps (the path-independent part is evaluated once; paths are evaluated on demand)
Outcomes(c, pos, shape, as0, ps) ==
  LET as == Expand(as0)
      dup == <<"cAlh", "dup">> \in as
      pes == {<<a, ParseEffect(c, a[1], a[2])>> : a \in as}
      rec == {x \in pes : x[2].k # "none"}
      retarget == {x \in rec : x[2].k = "other"}
      dets == {x \in rec : x[2].k = "det"}
      overruns == {x \in rec : x[2].k = "overrun"}
      locs == {x[1] : x \in {y \in rec : y[2].k = "locator"}}
      vals == {a \in as : a[1] \in ValueBytes} \cup locs
      \* the first detecting alteration in record order names the check
      firstDet == CHOOSE x \in dets : \A y \in dets : FieldIdx(x[1][1]) <= FieldIdx(y[1][1])
      \* the Alh comparison comes after the whole record was parsed; bounds and parse errors come in field order
      early == {x \in dets : x[2].by # "Alh"}
      firstEarly == CHOOSE x \in early : \A y \in early : FieldIdx(x[1][1]) <= FieldIdx(y[1][1])
      overrunFirst == overruns # {} /\ (early = {} \/ \E o \in overruns : FieldIdx(o[1][1]) <= FieldIdx(firstEarly[1][1]))
      sizeUp == <<"cTxSize", "up">> \in as
      calh == \E a \in as : a[1] = "cAlh" /\ a[2] # "dup"
      rs == {ReadResult(c, a[1], a[2]) : a \in vals}
      r == CHOOSE x \in rs : \A y \in rs : Rank(x) >= Rank(y)
      One(path) ==
        LET openLast == path \in {"Open", "IndexRebuild"} /\ pos = "last"      \* OpenWith checks on the last commit-log entry
        IN
        IF ~RecordRead(path, pos) THEN Inv("open-reads-last-only")
        ELSE IF retarget # {} THEN
               \* another tx's valid record is parsed instead; alterations of this tx's record are not even read
               IF openLast /\ ~dup THEN Det("CLogAlh")
               ELSE IF openLast THEN Unc(RBinding)
               \* a reader checks the chain from its second read on (ascending readers start at tx 1, descending at the last)
               ELSE IF path = "TxReader" /\ pos = "inner" THEN Det("PrevAlh")
               \* (ReadTxEntry finds the key or not in the other record: content dependent, no check)
               ELSE Unc(RBinding)
        ELSE IF overrunFirst THEN Unc(ROverrun)
        ELSE IF dets # {} THEN Det(firstDet[2].by)
        ELSE IF openLast /\ sizeUp THEN Det("TxLogSize")
        ELSE IF openLast /\ calh THEN Det("CLogAlh")
        ELSE IF vals = {} \/ ~ValueRead(path)
             THEN (IF locs # {} /\ EntriesReturned(path) /\ ~AcceptLocators THEN Unc(RLocator) ELSE Inv("unread-or-same"))
             ELSE ValueOutcome(path, shape, r)
  IN [p \in ps |-> One(p)]

Outcome(c, pos, shape, as0, path) == Outcomes(c, pos, shape, as0, {path})[path]
OutcomeSeq(c, pos, shape, as0) ==
  LET f == Outcomes(c, pos, shape, as0, PathSet)
  IN <<f[Paths[1]], f[Paths[2]], f[Paths[3]], f[Paths[4]], f[Paths[5]], f[Paths[6]], f[Paths[7]], f[Paths[8]], f[Paths[9]]>>

-----------------------------------------------------------------------------
(* the matrix written for the harness *)
CfgSeq == SetToSeq(CfgNames)
Ctx == {<<c, pos, shape>> : c \in CfgNames, pos \in Positions, shape \in Shapes}

Row(c, pos, shape, as, altseq) ==
  LET o == OutcomeSeq(c, pos, shape, as)
  IN [cfg |-> c, pos |-> pos, shape |-> shape, alts |-> altseq,
      exp |-> <<o[1].exp, o[2].exp, o[3].exp, o[4].exp, o[5].exp, o[6].exp, o[7].exp, o[8].exp, o[9].exp>>,
      by  |-> <<o[1].by, o[2].by, o[3].by, o[4].by, o[5].by, o[6].by, o[7].by, o[8].by, o[9].by>>]

\* keys <<cfg, pos, shape, <<alteration, ...>>>>; rows are computed from keys (no sets of rows: comparing rows is slow)
SingleKeys   == UNION {{<<x[1], x[2], x[3], <<a>>>> : a \in AllAlts(x[1])} : x \in Ctx}
CompoundKeys == {<<x[1], x[2], x[3], <<a>>>> : x \in Ctx, a \in Compounds}

\* one class combination per unordered field pair, picked by Seed
Pick(c, f, salt) == Classes(c, f)[((Seed + salt) % Len(Classes(c, f))) + 1]
FieldPairs(c) == {<<f, g>> \in Fields \X Fields : Present(c, f) /\ Present(c, g) /\ FieldIdx(f) < FieldIdx(g)}
PairAlts(c, fg) == LET s == 7 * FieldIdx(fg[1]) + 3 * FieldIdx(fg[2])
                   IN <<<<fg[1], Pick(c, fg[1], s)>>, <<fg[2], Pick(c, fg[2], s + 1)>>>>
PairKeys == UNION {{<<x[1], x[2], x[3], PairAlts(x[1], fg)>> : fg \in FieldPairs(x[1])} : x \in Ctx}

AllKeys == SingleKeys \cup CompoundKeys \cup PairKeys
KeyAlts(k) == {k[4][i] : i \in 1..Len(k[4])}
RowOf(k) == Row(k[1], k[2], k[3], KeyAlts(k), k[4])
RowsOf(keys) == FoldSet(LAMBDA k, acc : Append(acc, RowOf(k)), <<>>, keys)    \* an evaluated tuple (a lazy function is re-evaluated by the serialiser)

Reasons == {RLocator, RVLenZero, ROverrun, RBinding, RVLogId, REofN1, REofNN}

\* (cells per expectation and candidate cells per reason are counted by checks/C09.py from the written rows)
WriteMatrix ==
  /\ PrintT(<<"rows", Cardinality(SingleKeys), Cardinality(CompoundKeys), Cardinality(PairKeys)>>)
  /\ (JsonSerialize(OutFile, [paths |-> Paths, seed |-> Seed,
          fix |-> [vLenZero |-> FixVLenZero, txBinding |-> FixTxBinding, mdBounds |-> FixMdBounds, vLogBound |-> FixVLogBound, exportEof |-> FixExportEof],
          singles |-> RowsOf(SingleKeys), compounds |-> RowsOf(CompoundKeys), pairs |-> RowsOf(PairKeys)]))

ASSUME OutFile = "" \/ WriteMatrix

-----------------------------------------------------------------------------
(* (c) the machine *)
VARIABLES stage, cfg, pos, shape, alts, path, outcome
vars == <<stage, cfg, pos, shape, alts, path, outcome>>

AltUniverse(c) == AllAlts(c) \cup Compounds

Init == /\ stage = "pristine" /\ cfg \in CfgNames /\ pos \in Positions /\ shape \in Shapes
        /\ alts = {} /\ path = "-" /\ outcome = Inv("unread-or-same")

Alter(a) == /\ stage \in {"pristine", "altered"}
            /\ Cardinality(alts) < MaxAlts
            /\ a \notin alts
            /\ \A b \in alts : b[1] # a[1]                  \* two alterations = two different fields
            /\ alts' = alts \cup {a}
            /\ stage' = "altered"
            /\ UNCHANGED <<cfg, pos, shape, path, outcome>>

Read(p) == /\ stage = "altered"
           /\ path' = p
           /\ outcome' = Outcome(cfg, pos, shape, alts, p)
           /\ stage' = "read"
           /\ UNCHANGED <<cfg, pos, shape, alts>>

Next == (\E a \in AltUniverse(cfg) : Alter(a)) \/ (\E p \in PathSet : Read(p))
Spec == Init /\ [][Next]_vars

TypeOK == /\ stage \in {"pristine", "altered", "read"}
          /\ outcome.exp \in {"detected", "invisible", "UNCOVERED"}
          /\ Cardinality(alts) <= MaxAlts

\* the property in the model: every alteration is detected or semantically invisible
DetectedOrInvisible == stage = "read" => outcome.exp # "UNCOVERED"

\* reads of a pristine store are never "detected" (no false alarms in the model itself)
PristineReadsFine == \A c \in CfgNames, po \in Positions, sh \in Shapes, p \in PathSet : Outcome(c, po, sh, {}, p).exp = "invisible"
ASSUME PristineReadsFine
=============================================================================
