----------------------------- MODULE TraceMVCC -----------------------------
(***************************************************************************)
(* Serializability in commit order (C05) checked on real executions: the   *)
(* ndjson file (env VERIF_TRACE) lists, per run (Reset), every committed   *)
(* transaction in tx-id order with its write set and the reads it made     *)
(* (other than of its own writes): point reads with the tx id of the       *)
(* version returned (0 = not found) and full scans of an index with the    *)
(* <<key, tx id>> list returned and the keys the tx itself had written,    *)
(* and range fingerprints (MarkPrefixScanned).                             *)
(* A read is valid iff it equals the same read evaluated on the state      *)
(* produced by all transactions with smaller ids.                          *)
(***************************************************************************)
EXTENDS Naturals, Sequences, FiniteSets, TLC, Json, IOUtils

TraceLog == ndJsonDeserialize(IOEnv.VERIF_TRACE)

Keys == {"a1", "a2", "b1"}
KeysOf(x) == IF x = "a" THEN <<"a1", "a2">> ELSE <<"b1">>

VARIABLES l, last, n, bad     \* last[k] = tx id of the latest committed version of k (0: none); n = commits so far
vars == <<l, last, n, bad>>

Init == l = 1 /\ last = [k \in Keys |-> 0] /\ n = 0 /\ bad = <<>>
Ev == TraceLog[l]

RECURSIVE ScanNow(_, _)
ScanNow(ks, own) == IF ks = <<>> THEN <<>>
                    ELSE (IF Head(ks) \in own \/ last[Head(ks)] = 0 THEN <<>> ELSE <<<<Head(ks), last[Head(ks)]>>>>) \o ScanNow(Tail(ks), own)
ToSet(s) == {s[q] : q \in 1..Len(s)}
\* "fp": a range fingerprint (OngoingTx.MarkPrefixScanned) taken on a snapshot not newer than tx r.hi: the transaction may commit
\* only if the range is still what that snapshot showed, hence at least: nothing of the range was written after r.hi
ReadOk(r) == IF r.kind = "get" THEN last[r.k] = r.e
             ELSE IF r.kind = "fp" THEN \A q \in 1..Len(KeysOf(r.x)) : last[KeysOf(r.x)[q]] <= r.hi
             ELSE ScanNow(KeysOf(r.x), ToSet(r.own)) = r.es

Reset == /\ l <= Len(TraceLog) /\ Ev.ev = "Reset"
         /\ l' = l + 1 /\ last' = [k \in Keys |-> 0] /\ n' = 0 /\ UNCHANGED bad
Commit == /\ l <= Len(TraceLog) /\ Ev.ev = "Commit"
          /\ Ev.id = n + 1                                  \* dense ids, in order
          /\ bad' = IF \A q \in 1..Len(Ev.reads) : ReadOk(Ev.reads[q]) THEN bad
                    ELSE Append(bad, [line |-> l, id |-> Ev.id, reads |-> Ev.reads, state |-> last])
          /\ last' = [k \in Keys |-> IF k \in ToSet(Ev.writes) THEN Ev.id ELSE last[k]]
          /\ n' = n + 1 /\ l' = l + 1
Next == Reset \/ Commit
Spec == Init /\ [][Next]_vars

TraceAccepted ==
  LET d == TLCGet("stats").diameter IN
  IF d - 1 = Len(TraceLog) THEN TRUE ELSE Print(<<"TRACE-REJECTED-AT-LINE", d>>, FALSE)
ReportBad == (l = Len(TraceLog) + 1 /\ bad # <<>>) => PrintT(<<"JSON:", ToJson([bad |-> bad])>>)
=============================================================================
