------------------------------- MODULE Index -------------------------------
(***************************************************************************)
(* C04 - reads reflect exactly the committed log.                          *)
(*                                                                         *)
(* State machine of the asynchronous indexers of embedded/store            *)
(* (indexer.go, immustore.go, key_reader.go on top of embedded/tbtree):    *)
(*   log      committed transactions (sequence of entry sequences)         *)
(*   ts[x]    logical time of index x (tbtree root ts)                     *)
(*   map[x]   multi-version map of index x: target key -> versions         *)
(* Actions: CommitTx, IndexBulk(x,k) (transcription of indexer.indexSince),*)
(* Flush/Compact/Reopen (content unchanged), reads as state functions.     *)
(*                                                                         *)
(* Keys are sequences over small naturals ("characters"); the harness      *)
(* concretises every character to a fixed-length byte block, which keeps   *)
(* the lexicographic order and the prefix relation.  A version is a        *)
(* pointer to the log entry that holds its content (ptx, pk) plus the      *)
(* index time tx at which it was inserted.                                 *)
(*                                                                         *)
(* Three switches select the transcription of indexSince: FALSE = the      *)
(* design (what a correct indexer does), TRUE = the code as pinned.        *)
(***************************************************************************)
EXTENDS Integers, Sequences, FiniteSets, TLC, Json, SequencesExt

CONSTANTS Keys,        \* source keys (sequences of characters)
          Kinds,       \* subset of {"val","del","past","fut","nix"}: plain value, logical delete, expired in the
                       \* past, expires in the far future, non-indexable
          Vals,        \* value ids of non-deleted entries (0 = empty value); a deleted entry has value 0
          TxMds,       \* subset of BOOLEAN: may a transaction carry tx metadata
          MaxTx,       \* bound on the length of the log
          MaxEntries,  \* bound on the number of entries per tx
          Indexes,     \* sequence of [src, tgt, mapped, inj, srcIdx] (see MCIndex.tla)
          MaxBulk,     \* IndexOptions.MaxBulkSize
          AliasKeys,            \* TRUE: kv.K of an identity index is a slice of the per-position key buffer of idx.tx
          BulkStartInInjective, \* TRUE: the injective branch uses txID (bulk start) where txID+i is meant
          ReadonlyTombMd,       \* TRUE: AsDeleted(true) on the read-only metadata of the previous entry is lost
          Export,      \* TRUE: keep the history variable (behaviours for replay)
          EmitDepth,   \* print the history when it reaches this length (0 = never)
          NReads       \* random queries per read step (export)

VARIABLES log, ts, map,
          run,    \* realisable schedule only: index x is initialised (its indexer goroutine exists)
          hist    \* observation only
vars == <<log, ts, map, run, hist>>

X == 1..Len(Indexes)
Min(a, b) == IF a < b THEN a ELSE b
SetMax(S) == CHOOSE m \in S : \A o \in S : o <= m

-----------------------------------------------------------------------------
(* keys *)
IsPrefix(p, k) == Len(p) <= Len(k) /\ SubSeq(k, 1, Len(p)) = p
KLt(a, b) == \E i \in 1..(Min(Len(a), Len(b)) + 1) :
                /\ \A j \in 1..(i - 1) : a[j] = b[j]
                /\ IF i > Len(a) THEN i <= Len(b) ELSE (i <= Len(b) /\ a[i] < b[i])
KLe(a, b) == a = b \/ KLt(a, b)
SortKeys(S) == SetToSortSeq(S, KLt)

ValChar(v) == 4 + v
\* TargetEntryMapper of a mapped index: target prefix, then the value, then the source key (hence injective)
TargetKey(x, k, v) == IF Indexes[x].mapped THEN Indexes[x].tgt \o <<ValChar(v)>> \o k ELSE k

-----------------------------------------------------------------------------
(* transactions *)
EntryOK(e) == (e.kind = "del" => e.v = 0)
              \* entries no index looks at come in one variant only (their content cannot influence any index)
              /\ ((\A x \in X : ~IsPrefix(Indexes[x].src, e.k)) => (e.kind = "val" /\ e.v = SetMax(Vals)))
AllEntries == {e \in [k : Keys, kind : Kinds, v : Vals \cup {0}] : EntryOK(e) /\ (e.kind # "del" => e.v \in Vals)}
KeySeqs == {SortKeys(S) : S \in {T \in SUBSET Keys : Cardinality(T) \in 1..MaxEntries}}
EsFor(ks) == {es \in [1..Len(ks) -> AllEntries] : \A i \in 1..Len(ks) : es[i].k = ks[i]}
AllTxs == UNION {{[es |-> es, md |-> m] : es \in EsFor(ks), m \in TxMds} : ks \in KeySeqs}

HasKey(t, k) == \E i \in 1..Len(log[t].es) : log[t].es[i].k = k
Ent(t, k) == log[t].es[CHOOSE i \in 1..Len(log[t].es) : log[t].es[i].k = k]
Indexable(x, e) == e.kind # "nix" /\ IsPrefix(Indexes[x].src, e.k)

-----------------------------------------------------------------------------
(* multi-version maps: function from the keys present to the non-empty sequence of versions, oldest first *)
EmptyMap == <<>>
Ver(k, tx, ptx, pk, del, tomb) == [k |-> k, tx |-> tx, ptx |-> ptx, pk |-> pk, del |-> del, tomb |-> tomb]
Stored(kv) == [tx |-> kv.tx, ptx |-> kv.ptx, pk |-> kv.pk, del |-> kv.del, tomb |-> kv.tomb]

\* tbtree.BulkInsert (leafNode.updateOnInsert): same timestamp as the latest version -> ignored; older -> error
ApplyOne(r, kv) ==
  IF ~r.ok THEN r
  ELSE IF kv.k \notin DOMAIN r.m THEN [ok |-> TRUE, m |-> r.m @@ (kv.k :> <<Stored(kv)>>)]
  ELSE LET last == r.m[kv.k][Len(r.m[kv.k])] IN
       IF kv.tx < last.tx THEN [ok |-> FALSE, m |-> r.m]
       ELSE IF kv.tx = last.tx THEN r
       ELSE [ok |-> TRUE, m |-> [r.m EXCEPT ![kv.k] = Append(@, Stored(kv))]]
Apply(m, kvs) ==
  LET F[i \in 0..Len(kvs)] == IF i = 0 THEN [ok |-> TRUE, m |-> m] ELSE ApplyOne(F[i - 1], kvs[i])
  IN F[Len(kvs)]

\* versions of M with index time <= n
Restrict(M, n) ==
  LET ks == {k \in DOMAIN M : \E j \in 1..Len(M[k]) : M[k][j].tx <= n}
  IN [k \in ks |-> SelectSeq(M[k], LAMBDA w : w.tx <= n)]

-----------------------------------------------------------------------------
(* REFERENCE: what index x holds once it has applied log[1..n], one transaction at a time *)

\* the latest transaction before t that wrote source key k into the source index of x
PrevTx(x, k, t) ==
  LET sx == Indexes[x].srcIdx
      S == {u \in 1..(t - 1) : HasKey(u, k) /\ Indexable(sx, Ent(u, k))}
  IN IF S = {} THEN 0 ELSE SetMax(S)

RefKVs(x, t) ==
  LET es == log[t].es
      F[i \in 0..Len(es)] ==
        IF i = 0 THEN <<>>
        ELSE LET e == es[i] IN
          IF ~Indexable(x, e) THEN F[i - 1]
          ELSE LET tk == TargetKey(x, e.k, e.v)
                   main == Ver(tk, t, t, e.k, e.kind = "del", FALSE)
                   p == IF Indexes[x].inj THEN PrevTx(x, e.k, t) ELSE 0
               IN IF p = 0 THEN Append(F[i - 1], main)
                  ELSE LET tpk == TargetKey(x, e.k, Ent(p, e.k).v) IN
                       IF tpk = tk THEN Append(F[i - 1], main)
                       \* the previously mapped key of this source key is tombstoned at time t
                       ELSE F[i - 1] \o <<main, Ver(tpk, t, p, e.k, TRUE, TRUE)>>
  IN F[Len(es)]

RefMap(x, n) ==
  LET R[t \in 0..n] == IF t = 0 THEN EmptyMap ELSE Apply(R[t - 1], RefKVs(x, t)).m
  IN R[n]

-----------------------------------------------------------------------------
(* TRANSCRIPTION of indexer.indexSince(txID = from) for a bulk of k transactions *)

\* the key buffer of entry position j of idx.tx after the whole bulk has been read, cut to the length of key kA
Aliased(from, k, i, j, kA) ==
  LET G[i2 \in i..(k - 1)] ==
        IF i2 = i THEN kA
        ELSE LET es2 == log[from + i2].es IN
             IF j > Len(es2) THEN G[i2 - 1]
             ELSE [n \in 1..Len(kA) |-> IF n <= Len(es2[j].k) THEN es2[j].k[n] ELSE G[i2 - 1][n]]
  IN G[k - 1]

\* source index lookup GetBetween(sourceKey, 1, asOf).tx on the implementation map of the source index
SrcPrevTx(sx, k, asOf) ==
  IF k \notin DOMAIN map[sx] THEN 0
  ELSE LET S == {j \in 1..Len(map[sx][k]) : map[sx][k][j].tx <= asOf}
       IN IF S = {} THEN 0 ELSE map[sx][k][SetMax(S)].tx

ImplKVs(x, from, k) ==
  LET TxF[i \in 0..(k - 1)] ==        \* [ok, kvs] after transactions from..from+i
        LET t == from + i
            es == log[t].es
            prev == IF i = 0 THEN [ok |-> TRUE, kvs |-> <<>>] ELSE TxF[i - 1]
            EF[j \in 0..Len(es)] ==
              IF j = 0 THEN prev
              ELSE LET e == es[j] acc == EF[j - 1] IN
                IF ~acc.ok \/ ~Indexable(x, e) THEN acc
                ELSE LET tk == IF Indexes[x].mapped THEN TargetKey(x, e.k, e.v)
                               ELSE IF AliasKeys THEN Aliased(from, k, i, j, e.k) ELSE e.k
                         main == Ver(tk, t, t, e.k, e.kind = "del", FALSE)
                         inInj == Indexes[x].inj /\ (IF BulkStartInInjective THEN from > 1 ELSE t > 1)
                         asOf == IF BulkStartInInjective THEN from - 1 ELSE t - 1
                         p == IF inInj THEN SrcPrevTx(Indexes[x].srcIdx, e.k, asOf) ELSE 0
                     IN IF p = 0 THEN [ok |-> TRUE, kvs |-> Append(acc.kvs, main)]
                        ELSE IF ~HasKey(p, e.k) THEN [ok |-> FALSE, kvs |-> acc.kvs]    \* ReadTxEntry fails
                        ELSE LET pe == Ent(p, e.k)
                                 tpk == TargetKey(x, e.k, pe.v)
                                 del == IF ReadonlyTombMd /\ pe.kind # "val" THEN pe.kind = "del" ELSE TRUE
                             IN IF tpk = tk THEN [ok |-> TRUE, kvs |-> Append(acc.kvs, main)]
                                ELSE [ok |-> TRUE, kvs |-> acc.kvs \o <<main, Ver(tpk, t, p, e.k, del, TRUE)>>]
        IN EF[Len(es)]
  IN TxF[k - 1]

\* the injective branch waits for the source index (WaitForIndexingUpto)
SourceReady(x, from, k, tsv) ==
  Indexes[x].inj => tsv[Indexes[x].srcIdx] >= (IF BulkStartInInjective THEN from - 1 ELSE from + k - 2)

\* effect of one bulk on (map, ts) of index x: BulkInsert, or IncreaseTs when nothing is indexable
BulkApply(x, k, mp, tsv) ==
  LET from == tsv[x] + 1
      r == ImplKVs(x, from, k)
      a == Apply(mp[x], r.kvs)
  IN IF ~r.ok \/ ~a.ok THEN [ok |-> FALSE, map |-> mp, ts |-> tsv]
     ELSE [ok |-> TRUE, map |-> [mp EXCEPT ![x] = a.m],
           ts |-> [tsv EXCEPT ![x] = IF r.kvs = <<>> THEN from + k - 1
                                     ELSE SetMax({r.kvs[i].tx : i \in 1..Len(r.kvs)})]]

-----------------------------------------------------------------------------
(* READS: results as functions of a multi-version map M (all are DEFINED here; the real code must return them) *)
Item(k, w, j) ==
  LET e == Ent(w.ptx, w.pk) IN
  [k |-> k, tx |-> w.tx, hc |-> j, ptx |-> w.ptx, pk |-> w.pk, del |-> w.del, tomb |-> w.tomb,
   exp |-> IF e.kind = "past" THEN "past" ELSE IF e.kind = "fut" THEN "fut" ELSE "no", xmd |-> log[w.ptx].md]
Last(M, k) == Item(k, M[k][Len(M[k])], Len(M[k]))
\* flt is a subset of {"D","E"}: IgnoreDeleted, IgnoreExpired
Filtered(it, flt) == ("D" \in flt /\ it.del) \/ ("E" \in flt /\ it.exp = "past")
Live(it) == ~Filtered(it, {"D", "E"})
Res(st, items) == [st |-> st, items |-> items]
NF == Res("nf", <<>>)

\* Get / GetWithFilters
RGet(M, k, flt) == IF k \notin DOMAIN M THEN NF
                   ELSE IF Filtered(Last(M, k), flt) THEN NF ELSE Res("ok", <<Last(M, k)>>)
\* GetBetween(key, initialTx, finalTx): the latest version with initialTx <= tx <= finalTx, unfiltered
LatestUpTo(M, k, f) == LET S == {j \in 1..Len(M[k]) : M[k][j].tx <= f} IN IF S = {} THEN 0 ELSE SetMax(S)
RBetween(M, k, i, f) ==
  IF k \notin DOMAIN M THEN NF
  ELSE LET j == LatestUpTo(M, k, f) IN
       IF j = 0 \/ M[k][j].tx < i THEN NF ELSE Res("ok", <<Item(k, M[k][j], j)>>)
\* GetWithPrefix(prefix, neq): emitted only where every reasonable reading of the contract gives the same answer
\* (first key with the prefix different from / greater than neq; filters applied to that key or skipping dead keys)
PrefixCands(M, p, neq, strict) ==
  {k \in DOMAIN M : IsPrefix(p, k) /\ (neq = <<>> \/ (IF strict THEN KLt(neq, k) ELSE k # neq))}
RPrefixWith(M, p, neq, strict, skipDead) ==
  LET c == IF skipDead THEN {k \in PrefixCands(M, p, neq, strict) : Live(Last(M, k))} ELSE PrefixCands(M, p, neq, strict)
  IN IF c = {} THEN NF
     ELSE LET k0 == SortKeys(c)[1] IN IF Live(Last(M, k0)) THEN Res("ok", <<Last(M, k0)>>) ELSE NF
RPrefix(M, p, neq) == RPrefixWith(M, p, neq, TRUE, FALSE)
PrefixDefined(M, p, neq) ==
  \A s \in BOOLEAN, d \in BOOLEAN : RPrefixWith(M, p, neq, s, d) = RPrefix(M, p, neq)
\* History(key, offset, desc, limit): consecutive revision numbers
RHistory(M, k, off, desc, lim) ==
  IF k \notin DOMAIN M THEN NF
  ELSE LET n == Len(M[k]) IN
       IF off = n THEN Res("nomore", <<>>)
       ELSE IF off > n THEN Res("oor", <<>>)
       ELSE LET cnt == Min(lim, n - off) IN
            Res("ok", [i \in 1..cnt |-> LET j == IF desc THEN n - off - i + 1 ELSE off + i IN Item(k, M[k][j], j)])
\* key readers (Snapshot.NewKeyReader + Read until ErrNoMoreEntries)
InRange(k, q) ==
  /\ IsPrefix(q.p, k)
  /\ q.seek # <<>> => IF q.desc THEN (IF q.iseek THEN KLe(k, q.seek) ELSE KLt(k, q.seek))
                                ELSE (IF q.iseek THEN KLe(q.seek, k) ELSE KLt(q.seek, k))
  /\ q.end # <<>> => IF q.desc THEN (IF q.iend THEN KLe(q.end, k) ELSE KLt(q.end, k))
                               ELSE (IF q.iend THEN KLe(k, q.end) ELSE KLt(k, q.end))
Ordered(S, desc) == IF desc THEN Reverse(SortKeys(S)) ELSE SortKeys(S)
Drop(s, n) == IF n >= Len(s) THEN <<>> ELSE SubSeq(s, n + 1, Len(s))
RScan(M, q) ==
  LET ks == Ordered({k \in DOMAIN M : InRange(k, q)}, q.desc)
      items == [i \in 1..Len(ks) |-> Last(M, ks[i])]
  IN Res("ok", Drop(SelectSeq(items, LAMBDA it : ~Filtered(it, q.flt)), q.off))
\* ReadBetween(initialTx, finalTx) on a key reader
RScanBetween(M, q) ==
  LET ks == Ordered({k \in DOMAIN M : InRange(k, q) /\ LatestUpTo(M, k, q.f) # 0
                                      /\ M[k][LatestUpTo(M, k, q.f)].tx >= q.i}, q.desc)
      items == [i \in 1..Len(ks) |-> LET j == LatestUpTo(M, ks[i], q.f) IN Item(ks[i], M[ks[i]][j], j)]
  IN Res("ok", Drop(SelectSeq(items, LAMBDA it : ~Filtered(it, q.flt)), q.off))
\* everything the index holds: every key with its whole history (checked at every read step of a replay)
RDump(M) ==
  LET ks == SortKeys(DOMAIN M) IN
  Res("ok", [i \in 1..Len(ks) |-> [k |-> ks[i], vs |-> [j \in 1..Len(M[ks[i]]) |-> Item(ks[i], M[ks[i]][j], j)]]])

\* one query record shape for all operations
Q0 == [op |-> "get", via |-> "store", k |-> <<>>, i |-> 0, f |-> 0, p |-> <<>>, neq |-> <<>>, off |-> 0, desc |-> FALSE,
       lim |-> 1, seek |-> <<>>, end |-> <<>>, iseek |-> FALSE, iend |-> FALSE, flt |-> {}]
Eval(M, q) ==
  CASE q.op = "get"     -> RGet(M, q.k, q.flt)
    [] q.op = "between" -> RBetween(M, q.k, q.i, q.f)
    [] q.op = "prefix"  -> RPrefix(M, q.p, q.neq)
    [] q.op = "history" -> RHistory(M, q.k, q.off, q.desc, q.lim)
    [] q.op = "scan"    -> RScan(M, q)
    [] q.op = "scanb"   -> RScanBetween(M, q)
    [] q.op = "dump"    -> RDump(M)
Defined(M, q) == q.op = "prefix" => PrefixDefined(M, q.p, q.neq)

\* query universe of index x at index time n
TKeys(x) == IF Indexes[x].mapped THEN {TargetKey(x, k, v) : k \in {kk \in Keys : IsPrefix(Indexes[x].src, kk)}, v \in Vals \cup {0}}
            ELSE {k \in Keys : IsPrefix(Indexes[x].src, k)}
QKeys(x) == TKeys(x) \cup {Indexes[x].tgt \o <<9>>}           \* plus a key that never exists
QPrefixes(x) == {SubSeq(k, 1, l) : k \in TKeys(x), l \in Len(Indexes[x].tgt)..3} \cap {s \in Seq(0..9) : TRUE}
=============================================================================
