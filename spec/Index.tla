------------------------------- MODULE Index -------------------------------
(***************************************************************************)
(* C04 - reads reflect exactly the committed log.                          *)
(*                                                                         *)
(* State machine of the asynchronous indexers of embedded/store            *)
(* (indexer.go, immustore.go, key_reader.go on top of embedded/tbtree):    *)
(*   log      committed transactions (sequence of entry sequences)         *)
(*   ts[x]    logical time of index x (tbtree root ts)                     *)
(*   map[x]   multi-version map of index x: target key -> versions         *)
(* Actions: CommitTx, IndexBulk(x,k) (transcription of indexer.indexSince),*)
(* Flush/Compact/Reopen (content unchanged), reads as state functions.     *)
(*                                                                         *)
(* Keys are sequences over small naturals ("characters"); the harness      *)
(* concretises every character to a fixed-length byte block, which keeps   *)
(* the lexicographic order and the prefix relation.  A version is a        *)
(* pointer to the log entry that holds its content (ptx, pk) plus the      *)
(* index time tx at which it was inserted.                                 *)
(*                                                                         *)
(* The variable sw selects the transcription of indexSince: "none" = the   *)
(* design (what a correct indexer does), the others = the code as pinned.  *)
(***************************************************************************)
EXTENDS Integers, Sequences, FiniteSets, TLC, Json

CONSTANTS Keys,        \* source keys (sequences of characters)
          Kinds,       \* subset of {"val","del","past","fut","nix"}: plain value, logical delete, expired in the
                       \* past, expires in the far future, non-indexable
          Vals,        \* value ids of non-deleted entries (0 = empty value); a deleted entry has value 0
          TxMds,       \* subset of BOOLEAN: may a transaction carry tx metadata
          MaxTx,       \* bound on the length of the log
          MaxEntries,  \* bound on the number of entries per tx
          Indexes,     \* sequence of [src, tgt, mapped, inj, srcIdx] (see MCIndex.tla)
          BulkChoices, \* values of IndexOptions.MaxBulkSize (one is chosen per behaviour)
          Switches,    \* transcription variants of indexSince (one is chosen per behaviour): "none" = the design;
                       \* "alias": kv.K of an identity index is a slice of the per-position key buffer of idx.tx;
                       \* "bulkstart": the injective branch uses txID (bulk start) where txID+i is meant;
                       \* "rotomb": AsDeleted(true) on the read-only metadata of the previous entry is lost
          Export,      \* TRUE: keep the history variable (behaviours for replay)
          EmitDepth,   \* print the history when it reaches this length (0 = never)
          NReads,      \* random queries per read step (export)
          CommitWeight, \* relative weight of commits among the random steps (export)
          ReadWeight   \* relative weight of read steps (export)

VARIABLES log, ts, map,
          mb,     \* MaxBulkSize of this behaviour
          sw,     \* transcription variant of this behaviour
          run,    \* realisable schedule only: index x is initialised (its indexer goroutine exists)
          pend,   \* realisable schedule only: initialised indexes that still have to apply the last transaction
          hist    \* observation only
vars == <<log, ts, map, mb, sw, run, pend, hist>>
MaxBulk == mb
AliasKeys == sw = "alias"
BulkStartInInjective == sw = "bulkstart"
ReadonlyTombMd == sw = "rotomb"

X == 1..Len(Indexes)
Min(a, b) == IF a < b THEN a ELSE b
SetMax(S) == CHOOSE m \in S : \A o \in S : o <= m

-----------------------------------------------------------------------------
(* keys *)
IsPrefix(p, k) == Len(p) <= Len(k) /\ SubSeq(k, 1, Len(p)) = p
KLt(a, b) == \E i \in 1..(Min(Len(a), Len(b)) + 1) :
                /\ \A j \in 1..(i - 1) : a[j] = b[j]
                /\ IF i > Len(a) THEN i <= Len(b) ELSE (i <= Len(b) /\ a[i] < b[i])
KLe(a, b) == a = b \/ KLt(a, b)
RECURSIVE SortKeys(_)
SortKeys(S) == IF S = {} THEN <<>>
               ELSE LET m == CHOOSE k \in S : \A o \in S : KLe(k, o) IN <<m>> \o SortKeys(S \ {m})
Rev(s) == [i \in 1..Len(s) |-> s[Len(s) + 1 - i]]

ValChar(v) == 4 + v
\* TargetEntryMapper of a mapped index: target prefix, then the value, then the source key (hence injective)
TargetKey(x, k, v) == IF Indexes[x].mapped THEN Indexes[x].tgt \o <<ValChar(v)>> \o k ELSE k

-----------------------------------------------------------------------------
(* transactions *)
EntryOK(e) == (e.kind = "del" => e.v = 0)
              \* entries no index looks at come in one variant only (their content cannot influence any index)
              /\ ((\A x \in X : ~IsPrefix(Indexes[x].src, e.k)) => (e.kind = "val" /\ e.v = SetMax(Vals)))
              \* a non-indexable entry is skipped by every index whatever it holds
              /\ (e.kind = "nix" => e.v = SetMax(Vals))
AllEntries == {e \in [k : Keys, kind : Kinds, v : Vals \cup {0}] : EntryOK(e) /\ (e.kind # "del" => e.v \in Vals)}
KeySeqs == {SortKeys(S) : S \in {T \in SUBSET Keys : Cardinality(T) \in 1..MaxEntries}}
EsFor(ks) == {es \in [1..Len(ks) -> AllEntries] : \A i \in 1..Len(ks) : es[i].k = ks[i]}
AllTxs == UNION {{[es |-> es, md |-> m] : es \in EsFor(ks), m \in TxMds} : ks \in KeySeqs}

HasKey(t, k) == \E i \in 1..Len(log[t].es) : log[t].es[i].k = k
Ent(t, k) == log[t].es[CHOOSE i \in 1..Len(log[t].es) : log[t].es[i].k = k]
Indexable(x, e) == e.kind # "nix" /\ IsPrefix(Indexes[x].src, e.k)

-----------------------------------------------------------------------------
(* multi-version maps: function from the keys present to the non-empty sequence of versions, oldest first *)
EmptyMap == <<>>
Ver(k, tx, ptx, pk, del, tomb) == [k |-> k, tx |-> tx, ptx |-> ptx, pk |-> pk, del |-> del, tomb |-> tomb]
Stored(kv) == [tx |-> kv.tx, ptx |-> kv.ptx, pk |-> kv.pk, del |-> kv.del, tomb |-> kv.tomb]

\* tbtree.BulkInsert (leafNode.updateOnInsert): same timestamp as the latest version -> ignored; older -> error
ApplyOne(r, kv) ==
  IF ~r.ok THEN r
  ELSE IF kv.k \notin DOMAIN r.m THEN [ok |-> TRUE, m |-> r.m @@ (kv.k :> <<Stored(kv)>>)]
  ELSE LET last == r.m[kv.k][Len(r.m[kv.k])] IN
       IF kv.tx < last.tx THEN [ok |-> FALSE, m |-> r.m]
       ELSE IF kv.tx = last.tx THEN r
       ELSE [ok |-> TRUE, m |-> [r.m EXCEPT ![kv.k] = Append(@, Stored(kv))]]
Apply(m, kvs) ==
  LET F[i \in 0..Len(kvs)] == IF i = 0 THEN [ok |-> TRUE, m |-> m] ELSE ApplyOne(F[i - 1], kvs[i])
  IN F[Len(kvs)]

\* versions of M with index time <= n
Restrict(M, n) ==
  LET ks == {k \in DOMAIN M : \E j \in 1..Len(M[k]) : M[k][j].tx <= n}
  IN [k \in ks |-> SelectSeq(M[k], LAMBDA w : w.tx <= n)]

-----------------------------------------------------------------------------
(* REFERENCE: what index x holds once it has applied log[1..n], one transaction at a time *)

\* the latest transaction before t that wrote source key k into the source index of x
PrevTx(x, k, t) ==
  LET sx == Indexes[x].srcIdx
      S == {u \in 1..(t - 1) : HasKey(u, k) /\ Indexable(sx, Ent(u, k))}
  IN IF S = {} THEN 0 ELSE SetMax(S)

RefKVsG(x, t, quirk) ==
  LET es == log[t].es
      F[i \in 0..Len(es)] ==
        IF i = 0 THEN <<>>
        ELSE LET e == es[i] IN
          IF ~Indexable(x, e) THEN F[i - 1]
          ELSE LET tk == TargetKey(x, e.k, e.v)
                   main == Ver(tk, t, t, e.k, e.kind = "del", FALSE)
                   p == IF Indexes[x].inj THEN PrevTx(x, e.k, t) ELSE 0
               IN IF p = 0 THEN Append(F[i - 1], main)
                  ELSE LET tpk == TargetKey(x, e.k, Ent(p, e.k).v) IN
                       IF tpk = tk THEN Append(F[i - 1], main)
                       \* the previously mapped key of this source key is tombstoned at time t
                       ELSE F[i - 1] \o <<main, Ver(tpk, t, p, e.k,
                                                   IF quirk /\ Ent(p, e.k).kind # "val" THEN Ent(p, e.k).kind = "del" ELSE TRUE, TRUE)>>
  IN F[Len(es)]
RefKVs(x, t) == RefKVsG(x, t, FALSE)

\* quirk = TRUE is NOT the reference: it is the reference with the tombstone of an entry that carries metadata
\* left unmarked; TraceIndex uses it only to name a rejected read
RefMapG(x, n, quirk) ==
  LET R[t \in 0..n] == IF t = 0 THEN EmptyMap ELSE Apply(R[t - 1], RefKVsG(x, t, quirk)).m
  IN R[n]
RefMap(x, n) == RefMapG(x, n, FALSE)

-----------------------------------------------------------------------------
(* TRANSCRIPTION of indexer.indexSince(txID = from) for a bulk of k transactions *)

\* the key buffer of entry position j of idx.tx after the whole bulk has been read, cut to the length of key kA
Aliased(from, k, i, j, kA) ==
  LET G[i2 \in i..(k - 1)] ==
        IF i2 = i THEN kA
        ELSE LET es2 == log[from + i2].es IN
             IF j > Len(es2) THEN G[i2 - 1]
             ELSE [n \in 1..Len(kA) |-> IF n <= Len(es2[j].k) THEN es2[j].k[n] ELSE G[i2 - 1][n]]
  IN G[k - 1]

\* source index lookup GetBetween(sourceKey, 1, asOf).tx on the implementation map of the source index
SrcPrevTx(sx, k, asOf) ==
  IF k \notin DOMAIN map[sx] THEN 0
  ELSE LET S == {j \in 1..Len(map[sx][k]) : map[sx][k][j].tx <= asOf}
       IN IF S = {} THEN 0 ELSE map[sx][k][SetMax(S)].tx

ImplKVs(x, from, k) ==
  LET TxF[i \in 0..(k - 1)] ==        \* [ok, kvs] after transactions from..from+i
        LET t == from + i
            es == log[t].es
            prev == IF i = 0 THEN [ok |-> TRUE, kvs |-> <<>>] ELSE TxF[i - 1]
            EF[j \in 0..Len(es)] ==
              IF j = 0 THEN prev
              ELSE LET e == es[j] acc == EF[j - 1] IN
                IF ~acc.ok \/ ~Indexable(x, e) THEN acc
                ELSE LET tk == IF Indexes[x].mapped THEN TargetKey(x, e.k, e.v)
                               ELSE IF AliasKeys THEN Aliased(from, k, i, j, e.k) ELSE e.k
                         main == Ver(tk, t, t, e.k, e.kind = "del", FALSE)
                         inInj == Indexes[x].inj /\ (IF BulkStartInInjective THEN from > 1 ELSE t > 1)
                         asOf == IF BulkStartInInjective THEN from - 1 ELSE t - 1
                         p == IF inInj THEN SrcPrevTx(Indexes[x].srcIdx, e.k, asOf) ELSE 0
                     IN IF p = 0 THEN [ok |-> TRUE, kvs |-> Append(acc.kvs, main)]
                        ELSE IF ~HasKey(p, e.k) THEN [ok |-> FALSE, kvs |-> acc.kvs]    \* ReadTxEntry fails
                        ELSE LET pe == Ent(p, e.k)
                                 tpk == TargetKey(x, e.k, pe.v)
                                 del == IF ReadonlyTombMd /\ pe.kind # "val" THEN pe.kind = "del" ELSE TRUE
                             IN IF tpk = tk THEN [ok |-> TRUE, kvs |-> Append(acc.kvs, main)]
                                ELSE [ok |-> TRUE, kvs |-> acc.kvs \o <<main, Ver(tpk, t, p, e.k, del, TRUE)>>]
        IN EF[Len(es)]
  IN TxF[k - 1]

\* the injective branch waits for the source index (WaitForIndexingUpto)
SourceReady(x, from, k, tsv) ==
  Indexes[x].inj => tsv[Indexes[x].srcIdx] >= (IF BulkStartInInjective THEN from - 1 ELSE from + k - 2)

\* effect of one bulk on (map, ts) of index x: BulkInsert, or IncreaseTs when nothing is indexable
BulkApply(x, k, mp, tsv) ==
  LET from == tsv[x] + 1
      r == ImplKVs(x, from, k)
      a == Apply(mp[x], r.kvs)
  IN IF ~r.ok \/ ~a.ok THEN [ok |-> FALSE, map |-> mp, ts |-> tsv]
     ELSE [ok |-> TRUE, map |-> [mp EXCEPT ![x] = a.m],
           ts |-> [tsv EXCEPT ![x] = IF r.kvs = <<>> THEN from + k - 1
                                     ELSE SetMax({r.kvs[i].tx : i \in 1..Len(r.kvs)})]]

-----------------------------------------------------------------------------
(* READS: results as functions of a multi-version map M (all are DEFINED here; the real code must return them) *)
Item(k, w, j) ==
  LET e == Ent(w.ptx, w.pk) IN
  [k |-> k, tx |-> w.tx, hc |-> j, ptx |-> w.ptx, pk |-> w.pk, del |-> w.del, tomb |-> w.tomb,
   exp |-> IF e.kind = "past" THEN "past" ELSE IF e.kind = "fut" THEN "fut" ELSE "no", xmd |-> log[w.ptx].md]
LastItem(M, k) == Item(k, M[k][Len(M[k])], Len(M[k]))
\* flt is a subset of {"D","E"}: IgnoreDeleted, IgnoreExpired
Filtered(it, flt) == ("D" \in flt /\ it.del) \/ ("E" \in flt /\ it.exp = "past")
Live(it) == ~Filtered(it, {"D", "E"})
Res(st, items) == [st |-> st, items |-> items]
NF == Res("nf", <<>>)

\* Get / GetWithFilters
RGet(M, k, flt) == IF k \notin DOMAIN M THEN NF
                   ELSE IF Filtered(LastItem(M, k), flt) THEN NF ELSE Res("ok", <<LastItem(M, k)>>)
\* GetBetween(key, initialTx, finalTx): the latest version with initialTx <= tx <= finalTx, unfiltered
LatestUpTo(M, k, f) == LET S == {j \in 1..Len(M[k]) : M[k][j].tx <= f} IN IF S = {} THEN 0 ELSE SetMax(S)
RBetween(M, k, i, f) ==
  IF k \notin DOMAIN M THEN NF
  ELSE LET j == LatestUpTo(M, k, f) IN
       IF j = 0 \/ M[k][j].tx < i THEN NF ELSE Res("ok", <<Item(k, M[k][j], j)>>)
\* GetWithPrefix(prefix, neq): emitted only where every reasonable reading of the contract gives the same answer
\* (first key with the prefix different from / greater than neq; filters applied to that key or skipping dead keys)
PrefixCands(M, p, neq, strict) ==
  {k \in DOMAIN M : IsPrefix(p, k) /\ (neq = <<>> \/ (IF strict THEN KLt(neq, k) ELSE k # neq))}
RPrefixWith(M, p, neq, strict, skipDead) ==
  LET c == IF skipDead THEN {k \in PrefixCands(M, p, neq, strict) : Live(LastItem(M, k))} ELSE PrefixCands(M, p, neq, strict)
  IN IF c = {} THEN NF
     ELSE LET k0 == SortKeys(c)[1] IN IF Live(LastItem(M, k0)) THEN Res("ok", <<LastItem(M, k0)>>) ELSE NF
RPrefix(M, p, neq) == RPrefixWith(M, p, neq, TRUE, FALSE)
PrefixDefined(M, p, neq) ==
  \A s \in BOOLEAN, d \in BOOLEAN : RPrefixWith(M, p, neq, s, d) = RPrefix(M, p, neq)
\* History(key, offset, desc, limit): consecutive revision numbers
RHistory(M, k, off, desc, lim) ==
  IF k \notin DOMAIN M THEN NF
  ELSE LET n == Len(M[k]) IN
       IF off = n THEN Res("nomore", <<>>)
       ELSE IF off > n THEN Res("oor", <<>>)
       ELSE LET cnt == Min(lim, n - off) IN
            Res("ok", [i \in 1..cnt |-> LET j == IF desc THEN n - off - i + 1 ELSE off + i IN Item(k, M[k][j], j)])
\* key readers (Snapshot.NewKeyReader + Read until ErrNoMoreEntries)
InRange(k, q) ==
  /\ IsPrefix(q.p, k)
  /\ q.seek # <<>> => IF q.desc THEN (IF q.iseek THEN KLe(k, q.seek) ELSE KLt(k, q.seek))
                                ELSE (IF q.iseek THEN KLe(q.seek, k) ELSE KLt(q.seek, k))
  /\ q.end # <<>> => IF q.desc THEN (IF q.iend THEN KLe(q.end, k) ELSE KLt(q.end, k))
                               ELSE (IF q.iend THEN KLe(k, q.end) ELSE KLt(k, q.end))
Ordered(S, desc) == IF desc THEN Rev(SortKeys(S)) ELSE SortKeys(S)
Drop(s, n) == IF n >= Len(s) THEN <<>> ELSE SubSeq(s, n + 1, Len(s))
RScan(M, q) ==
  LET ks == Ordered({k \in DOMAIN M : InRange(k, q)}, q.desc)
      items == [i \in 1..Len(ks) |-> LastItem(M, ks[i])]
  IN Res("ok", Drop(SelectSeq(items, LAMBDA it : ~Filtered(it, q.flt)), q.off))
\* ReadBetween(initialTx, finalTx) on a key reader
RScanBetween(M, q) ==
  LET ks == Ordered({k \in DOMAIN M : InRange(k, q) /\ LatestUpTo(M, k, q.f) # 0
                                      /\ M[k][LatestUpTo(M, k, q.f)].tx >= q.i}, q.desc)
      items == [i \in 1..Len(ks) |-> LET j == LatestUpTo(M, ks[i], q.f) IN Item(ks[i], M[ks[i]][j], j)]
  IN Res("ok", Drop(SelectSeq(items, LAMBDA it : ~Filtered(it, q.flt)), q.off))
\* everything the index holds: every key with its whole history (checked at every read step of a replay)
RDump(M) ==
  LET ks == SortKeys(DOMAIN M) IN
  Res("ok", [i \in 1..Len(ks) |-> [k |-> ks[i], vs |-> [j \in 1..Len(M[ks[i]]) |-> Item(ks[i], M[ks[i]][j], j)]]])

\* one query record shape for all operations
Q0 == [op |-> "get", via |-> "store", k |-> <<>>, i |-> 0, f |-> 0, p |-> <<>>, neq |-> <<>>, off |-> 0, desc |-> FALSE,
       lim |-> 1, seek |-> <<>>, end |-> <<>>, iseek |-> FALSE, iend |-> FALSE, flt |-> {}]
Eval(M, q) ==
  CASE q.op = "get"     -> RGet(M, q.k, q.flt)
    [] q.op = "between" -> RBetween(M, q.k, q.i, q.f)
    [] q.op = "prefix"  -> RPrefix(M, q.p, q.neq)
    [] q.op = "history" -> RHistory(M, q.k, q.off, q.desc, q.lim)
    [] q.op = "scan"    -> RScan(M, q)
    [] q.op = "scanb"   -> RScanBetween(M, q)
    [] q.op = "dump"    -> RDump(M)
Defined(M, q) == q.op = "prefix" => PrefixDefined(M, q.p, q.neq)

\* query universe of index x
TKeys(x) == IF Indexes[x].mapped
            THEN {TargetKey(x, k, v) : k \in {kk \in Keys : IsPrefix(Indexes[x].src, kk)}, v \in Vals \cup {0}}
            ELSE {k \in Keys : IsPrefix(Indexes[x].src, k)}
QKeys(x) == TKeys(x) \cup {Indexes[x].tgt \o <<9>>}           \* plus a key that never exists
QPrefixes(x) == {p \in UNION {{SubSeq(k, 1, l) : l \in 0..Len(k)} : k \in TKeys(x)} : IsPrefix(Indexes[x].tgt, p)}
Norm(q) == IF q.i > q.f THEN [q EXCEPT !.i = q.f, !.f = q.i] ELSE q
Ops == {"get", "between", "prefix", "history", "scan", "scanb"}
\* random queries: most scans use the index prefix, open bounds and no offset so that they return something
Coin(n) == RandomElement(1..n) = 1
RandQ(x, n) ==
  Norm([op |-> RandomElement(Ops), via |-> RandomElement({"store", "snap"}), k |-> RandomElement(QKeys(x)),
        i |-> RandomElement(1..(n + 1)), f |-> RandomElement(1..(n + 1)),
        p |-> IF Coin(3) THEN RandomElement(QPrefixes(x)) ELSE Indexes[x].tgt,
        neq |-> IF Coin(2) THEN RandomElement(TKeys(x)) ELSE <<>>,
        off |-> IF Coin(3) THEN RandomElement(1..2) ELSE 0, desc |-> RandomElement(BOOLEAN),
        lim |-> RandomElement(1..3),
        seek |-> IF Coin(2) THEN RandomElement(QKeys(x)) ELSE <<>>, end |-> IF Coin(3) THEN RandomElement(QKeys(x)) ELSE <<>>,
        iseek |-> RandomElement(BOOLEAN), iend |-> RandomElement(BOOLEAN), flt |-> RandomElement(SUBSET {"D", "E"})])
\* a fixed family for the exhaustive runs (every operation, every key, every bound)
QueriesMC(x, n) ==
  {[Q0 EXCEPT !.op = "get", !.k = k, !.flt = fl] : k \in QKeys(x), fl \in {{}, {"D", "E"}}}
  \cup {[Q0 EXCEPT !.op = "between", !.k = k, !.i = i, !.f = f] : k \in TKeys(x), i \in 1..n, f \in 1..n}
  \cup {[Q0 EXCEPT !.op = "prefix", !.p = p, !.neq = nq] : p \in QPrefixes(x), nq \in {<<>>}}
  \cup {[Q0 EXCEPT !.op = "history", !.k = k, !.off = o, !.desc = d, !.lim = 2] : k \in TKeys(x), o \in 0..1, d \in BOOLEAN}
  \cup {[Q0 EXCEPT !.op = "scan", !.p = Indexes[x].tgt, !.desc = d, !.flt = fl, !.seek = s, !.iseek = TRUE]
          : d \in BOOLEAN, fl \in {{}, {"D", "E"}}, s \in {<<>>} \cup TKeys(x)}

-----------------------------------------------------------------------------
(* STATE MACHINE *)
NoTx == [es |-> <<>>, md |-> FALSE]
Step(op, x, tx, bulks, n, reads) == [op |-> op, x |-> x, tx |-> tx, bulks |-> bulks, n |-> n, reads |-> reads]
H(e) == hist' = IF Export THEN Append(hist, e) ELSE hist

Init == /\ log = <<>> /\ ts = [x \in X |-> 0] /\ map = [x \in X |-> EmptyMap]
        /\ run = [x \in X |-> FALSE] /\ pend = <<>> /\ hist = <<>>
        /\ mb \in BulkChoices /\ sw \in Switches /\ TLCSet(42, {})

(* general actions: the indexer may apply any bulk of 1..MaxBulk committed transactions at any time *)
CommitTx(tx) ==
  /\ Len(log) < MaxTx /\ pend = <<>>
  /\ log' = Append(log, tx) /\ UNCHANGED <<ts, map, run, pend, mb, sw>>
  /\ H(Step("commit", 0, tx, <<>>, Len(log) + 1, <<>>))
IndexBulk(x, k) ==
  /\ k \in 1..Min(MaxBulk, Len(log) - ts[x]) /\ SourceReady(x, ts[x] + 1, k, ts)
  /\ LET b == BulkApply(x, k, map, ts) IN
       /\ b.ok /\ map' = b.map /\ ts' = b.ts
       /\ H(Step("bulk", x, NoTx, <<k>>, b.ts[x], <<>>))
  /\ UNCHANGED <<log, run, pend, mb, sw>>
\* flush, compaction and restart of an index do not change what it holds
Maint(op, x) == /\ Export /\ pend = <<>> /\ UNCHANGED <<log, ts, map, run, pend, mb, sw>> /\ H(Step(op, x, NoTx, <<>>, 0, <<>>))
\* WaitForIndexingUpto(n) returns once ts[x] >= n: reads after it see index time ts[x] >= n (see IndexAgrees)
WaitIndexed(x, n) == ts[x] >= n

NextMC == \/ \E tx \in AllTxs : CommitTx(tx)
          \/ \E x \in X, k \in 1..mb : IndexBulk(x, k)
          \/ \E x \in X, op \in {"flush", "compact", "reopen"} : Maint(op, x)
SpecMC == Init /\ [][NextMC]_vars

(* realisable schedule: what a sequential driver can force on the real store without hooks.  An index that is
   not initialised does not index; InitIndexing makes it catch up in greedy bulks; an initialised index applies
   every new transaction on its own.  Every step is a composition of the general actions above. *)
RECURSIVE CatchUp(_, _, _, _)
CatchUp(x, mp, tsv, bulks) ==
  IF tsv[x] >= Len(log) THEN [ok |-> TRUE, map |-> mp, ts |-> tsv, bulks |-> bulks]
  ELSE LET k == Min(MaxBulk, Len(log) - tsv[x])
           b == BulkApply(x, k, mp, tsv)
       IN IF ~b.ok THEN [ok |-> FALSE, map |-> mp, ts |-> tsv, bulks |-> bulks]
          ELSE CatchUp(x, b.map, b.ts, Append(bulks, k))
Running == SelectSeq([i \in 1..Len(Indexes) |-> i], LAMBDA x : run[x])
CommitRz(tx) ==
  /\ Len(log) < MaxTx /\ pend = <<>>
  /\ log' = Append(log, tx) /\ pend' = Running /\ UNCHANGED <<ts, map, run, mb, sw>>
  /\ H(Step("commit", 0, tx, <<>>, Len(log) + 1, <<>>))
LiveRz ==
  /\ pend # <<>>
  /\ LET x == Head(pend) b == BulkApply(x, 1, map, ts) IN
       /\ b.ok /\ map' = b.map /\ ts' = b.ts /\ H(Step("live", x, NoTx, <<1>>, b.ts[x], <<>>))
  /\ pend' = Tail(pend) /\ UNCHANGED <<log, run, mb, sw>>
StartRz(x) ==
  /\ ~run[x] /\ pend = <<>> /\ (Indexes[x].inj => run[Indexes[x].srcIdx])
  /\ LET c == CatchUp(x, map, ts, <<>>) IN
       /\ c.ok /\ map' = c.map /\ ts' = c.ts /\ H(Step("start", x, NoTx, c.bulks, c.ts[x], <<>>))
  /\ run' = [run EXCEPT ![x] = TRUE] /\ UNCHANGED <<log, pend, mb, sw>>
StopRz(x) ==
  /\ run[x] /\ pend = <<>> /\ \A y \in X : (Indexes[y].inj /\ Indexes[y].srcIdx = x) => ~run[y]
  /\ run' = [run EXCEPT ![x] = FALSE] /\ UNCHANGED <<log, ts, map, pend, mb, sw>>
  /\ H(Step("stop", x, NoTx, <<>>, 0, <<>>))
MaintRz(op, x) == (IF x = 0 THEN TRUE ELSE run[x]) /\ Maint(op, x)
\* reads of an initialised index at its index time (= Len(log) here): expected results from the REFERENCE
ReadRz(x) ==
  /\ run[x] /\ pend = <<>> /\ UNCHANGED <<log, ts, map, run, pend, mb, sw>>
  /\ \E qs \in {[i \in 1..NReads |-> RandQ(x, ts[x])]} :
       LET M == RefMap(x, ts[x])
           all == <<[Q0 EXCEPT !.op = "dump"]>> \o SelectSeq(qs, LAMBDA q : Defined(M, q))
       IN H(Step("read", x, NoTx, <<>>, ts[x], [i \in 1..Len(all) |-> [q |-> all[i], r |-> Eval(M, all[i])]]))
NextRz(T) == \/ \E tx \in T : CommitRz(tx)
             \/ LiveRz
             \/ \E x \in X : StartRz(x) \/ StopRz(x)
\* exhaustive search over realisable schedules (used with the transcription switches on: its counterexamples
\* can be forced on the real store)
NextRzAll == NextRz(AllTxs)
SpecRz == Init /\ [][NextRzAll]_vars
\* random realisable behaviours with maintenance and reads (tlc -simulate)
NextSim == \/ \E c \in 1..CommitWeight : \E tx \in {RandomElement(AllTxs)} : CommitRz(tx)
           \/ LiveRz
           \/ \E x \in X : StartRz(x) \/ StopRz(x) \/ MaintRz("flush", x) \/ MaintRz("compact", x)
           \/ \E x \in X, c \in 1..ReadWeight : ReadRz(x)
           \/ (\E x \in X : run[x]) /\ MaintRz("reopen", 0)
SpecSim == Init /\ [][NextSim]_vars

-----------------------------------------------------------------------------
(* PROPERTY *)
TypeOK == /\ Len(log) <= MaxTx /\ \A x \in X : ts[x] <= Len(log)
\* for every index and every n up to its index time the index holds exactly what the reference computes from
\* log[1..n]; hence every defined read (a function of that content) equals the reference value
\* (the reference is monotone: what it holds at n is what it holds later restricted to n - RefMonotone, a statement
\* about the log alone, evaluated once per log)
Quiet == \A x \in X : ts[x] = 0
MapAgrees == \A x \in X : map[x] = RefMap(x, ts[x])
RefMonotone == Quiet => \A x \in X : \A n \in 0..Len(log) : Restrict(RefMap(x, Len(log)), n) = RefMap(x, n)
\* for the runs with a transcription switch on: the counterexample is printed as a replayable behaviour together
\* with what the REFERENCE says every initialised index holds at that point
\* for the runs with transcription variants: the first (shortest) counterexample of every variant is printed as a
\* replayable behaviour together with what the REFERENCE says every initialised index holds at that point; the
\* search goes on (a TLC counterexample is never a verdict: the check replays them on the real code)
MapAgreesX ==
  IF MapAgrees \/ sw \in TLCGet(42) THEN TRUE
  ELSE /\ TLCSet(42, TLCGet(42) \cup {sw})
       /\ PrintT(<<"JSON:", ToJson([steps |-> hist, indexes |-> Indexes, maxBulk |-> mb, sw |-> sw, run |-> run, ts |-> ts,
                                    dumps |-> [x \in X |-> RDump(RefMap(x, ts[x]))]])>>)
ReadsAgree == \A x \in X : LET R == RefMap(x, ts[x]) IN
                \A q \in QueriesMC(x, ts[x]) : Eval(map[x], q) = Eval(R, q)
IndexAgrees == MapAgrees /\ ReadsAgree
\* the reference itself is what the property means for an injective mapped index: a source key is findable under
\* exactly the target key of its current version, every other target key it ever had is a tombstone
LatestTx(x, k) == PrevTx(x, k, Len(log) + 1)
RefInjectiveSound ==
  Quiet => \A x \in X : Indexes[x].inj =>
    LET M == RefMap(x, Len(log)) IN
    /\ \A sk \in Keys : LatestTx(x, sk) > 0 =>
         LET tk == TargetKey(x, sk, Ent(LatestTx(x, sk), sk).v) IN
         tk \in DOMAIN M /\ LastItem(M, tk).ptx = LatestTx(x, sk) /\ ~LastItem(M, tk).tomb
    /\ \A tk \in DOMAIN M : ~LastItem(M, tk).del => LatestTx(x, LastItem(M, tk).pk) = LastItem(M, tk).ptx
\* revisions are consecutive and versions are in commit order
RefHistoryOrdered ==
  Quiet => \A x \in X : LET M == RefMap(x, Len(log)) IN
    \A k \in DOMAIN M : \A j \in 1..(Len(M[k]) - 1) : M[k][j].tx < M[k][j + 1].tx

\* the behaviour, and what every index must hold once it has caught up with the whole log (final comparison of a replay)
Emit == (EmitDepth > 0 /\ Len(hist) = EmitDepth) =>
          PrintT(<<"JSON:", ToJson([steps |-> hist, indexes |-> Indexes, maxBulk |-> MaxBulk, run |-> run,
                                    final |-> [x \in X |-> RDump(RefMap(x, Len(log)))]])>>)
View == <<log, ts, map, run, pend, mb, sw>>
=============================================================================
